package c09

import (
	"fmt"
	"math"
	"strconv"
	"strings"
	"sync"

	lua "github.com/yuin/gopher-lua"
	"github.com/yuin/gopher-lua/parse"

	"verif/vf"
)

// ---------------------------------------------------------------------------------------------
// case

type KV struct {
	K Val `json:"k"`
	V Val `json:"v"`
}

// Init says how a table under test is created.
type Init struct {
	Kind  string `json:"kind"` // new | create | ctor
	Acap  int    `json:"acap,omitempty"`
	Hcap  int    `json:"hcap,omitempty"`
	Pos   []Val  `json:"pos,omitempty"`   // ctor: positional fields (scalars or nil)
	Keyed []KV   `json:"keyed,omitempty"` // ctor: [k]=v fields (distinct keys, not positional indices)
}

type SchedEnt struct {
	At  Val   `json:"at"`
	Ops []*Op `json:"ops"`
}

// Op is one step of a history.
//
//	set      store V under K through Via (V nil deletes); a nil/NaN K through a Lua-level Via must raise
//	get      read K through Via (the sweep after every step reads every touched key through every applicable path anyway;
//	         this op adds the literal-key chunk path and untouched probe keys)
//	append   t[#t+1]=V (lua.len_append) | table.insert(t,V) (lua.tinsert) | tb.Append(V) (go.Append)
//	pop      t[#t]=nil (lua.len_pop) | table.remove(t) (lua.tremove)
//	trav     traverse with engine Via; when key At is visited the listed ops (set on existing keys, pop) run
type Op struct {
	Op    string     `json:"op"`
	Via   string     `json:"via,omitempty"`
	T     int        `json:"tb,omitempty"`
	K     *Val       `json:"k,omitempty"`
	V     *Val       `json:"v,omitempty"`
	Sp    int        `json:"sp,omitempty"`   // spelling variant of a literal key
	Lite  bool       `json:"lite,omitempty"` // inner step of a bulk run: only the key written and the length are re-read
	Sched []SchedEnt `json:"sched,omitempty"`
	Note  string     `json:"note,omitempty"`
}

type Case struct {
	Init [2]Init `json:"init"`
	Ops  []*Op   `json:"ops"`
}

// object pool layout
const (
	objT0, objT1        = 0, 1 // the tables under test
	objX0, objX1, objX2 = 2, 3, 4
	objLuaFn            = 5
	objGoFn             = 6
	objUD               = 7
	nObjs               = 8
)

// ---------------------------------------------------------------------------------------------
// Lua side helpers (compiled once; the prototype is immutable and instantiated per state)

const helperSrc = `
local emit, hook = ...
local function get(t, k) return t[k], rawget(t, k) end
local function set(t, k, v) t[k] = v end
local function rset(t, k, v) rawset(t, k, v) end
local function len(t) return #t, table.getn(t) end
local function lappend(t, v) local n = #t; t[n + 1] = v; return n end
local function lpop(t) local n = #t; t[n] = nil; return n end
local function tinsert(t, v) table.insert(t, v) end
local function tremove(t) return table.remove(t) end
local function next_all(t) local k, v = next(t); while k ~= nil do emit(k, v); k, v = next(t, k) end end
local function pairs_all(t) for k, v in pairs(t) do emit(k, v) end end
local function ipairs_all(t) for i, v in ipairs(t) do emit(i, v) end end
local function pairs_hook(t) for k, v in pairs(t) do if hook(k, v) then break end end end
local function next_hook(t) local k, v = next(t); while k ~= nil do if hook(k, v) then break end; k, v = next(t, k) end end
local function next1(t, k) return next(t, k) end
local function next0(t) return next(t) end
return get, set, rset, len, lappend, lpop, tinsert, tremove, next_all, pairs_all, ipairs_all, pairs_hook, next_hook, next1, next0
`

var (
	helperOnce  sync.Once
	helperProto *lua.FunctionProto
	helperErr   error
)

func helper() (*lua.FunctionProto, error) {
	helperOnce.Do(func() {
		chunk, err := parse.Parse(strings.NewReader(helperSrc), "helper")
		if err != nil {
			helperErr = err
			return
		}
		helperProto, helperErr = lua.Compile(chunk, "helper")
	})
	return helperProto, helperErr
}

type kvPair struct{ k, v lua.LValue }

type luaFns struct {
	get, set, rset, length, lappend, lpop, tinsert, tremove, nextAll, pairsAll, ipairsAll, pairsHook, nextHook, next1, next0 *lua.LFunction
}

// ---------------------------------------------------------------------------------------------
// executor: the real tables next to the model

type trav struct {
	ti      int
	engine  string
	start   map[mkey]bool
	visited map[mkey]bool
	cleared map[mkey]bool
	sched   map[mkey][]*Op
	aborted bool // a field was created during the traversal: the manual makes next undefined from there on
	err     error
	nvis    int
	limit   int
	didClr  bool // a key not yet visited was cleared
	shrunk  bool // table.remove removed an element during the traversal
}

type exec struct {
	k       *vf.C
	L       *lua.LState
	objs    []lua.LValue
	tabs    [2]*lua.LTable
	mod     [2]*tmodel
	fn      luaFns
	emits   []kvPair
	emitN   int
	emitMax int
	emitOv  bool
	hook    func(k, v lua.LValue) bool
	active  []*trav
	nverify int
	discard string // non-empty: the case left the specified domain (counted, not a verdict)

	// non-triviality bookkeeping
	reinserted, travClear  bool
	deleted                [2]map[mkey]bool
	sawArr, sawStr, sawGen bool
}

func newExec(k *vf.C, init [2]Init) (x *exec, err error) {
	proto, err := helper()
	if err != nil {
		return nil, fmt.Errorf("harness: helper chunk does not compile: %v", err)
	}
	L := lua.NewState(lua.Options{SkipOpenLibs: true, RegistrySize: 1024 * 4})
	for _, lib := range []struct {
		n string
		f lua.LGFunction
	}{{lua.LoadLibName, lua.OpenPackage}, {lua.BaseLibName, lua.OpenBase}, {lua.TabLibName, lua.OpenTable}} {
		L.Push(L.NewFunction(lib.f))
		L.Push(lua.LString(lib.n))
		L.Call(1, 0)
	}
	x = &exec{k: k, L: L}
	x.mod[0], x.mod[1] = newModel(), newModel()
	x.deleted[0], x.deleted[1] = map[mkey]bool{}, map[mkey]bool{}
	emit := L.NewFunction(func(L *lua.LState) int {
		x.emitN++
		if x.emitN > x.emitMax {
			x.emitOv = true
			L.RaiseError("harness: traversal does not terminate")
		}
		x.emits = append(x.emits, kvPair{L.Get(1), L.Get(2)})
		return 0
	})
	hook := L.NewFunction(func(L *lua.LState) int {
		stop := true
		if x.hook != nil {
			stop = x.hook(L.Get(1), L.Get(2))
		}
		L.Push(lua.LBool(stop))
		return 1
	})
	top := L.GetTop()
	if err := L.CallByParam(lua.P{Fn: L.NewFunctionFromProto(proto), NRet: 15, Protect: true}, emit, hook); err != nil {
		L.Close()
		return nil, fmt.Errorf("harness: helper chunk failed: %v", err)
	}
	fs := make([]*lua.LFunction, 15)
	for i := range fs {
		f, ok := L.Get(top + 1 + i).(*lua.LFunction)
		if !ok {
			L.Close()
			return nil, fmt.Errorf("harness: helper %d is not a function", i)
		}
		fs[i] = f
	}
	L.SetTop(top)
	x.fn = luaFns{fs[0], fs[1], fs[2], fs[3], fs[4], fs[5], fs[6], fs[7], fs[8], fs[9], fs[10], fs[11], fs[12], fs[13], fs[14]}

	x.objs = make([]lua.LValue, nObjs)
	for i := objX0; i <= objX2; i++ {
		x.objs[i] = L.NewTable()
	}
	x.objs[objLuaFn] = x.fn.get
	x.objs[objGoFn] = L.NewFunction(func(*lua.LState) int { return 0 })
	x.objs[objUD] = L.NewUserData()
	for ti := 0; ti < 2; ti++ {
		tb, err := x.create(ti, init[ti])
		if err != nil {
			L.Close()
			return nil, err
		}
		x.tabs[ti] = tb
		x.objs[ti] = tb
	}
	return x, nil
}

func (x *exec) close() { x.L.Close() }

// create builds table ti.  The constructor form goes through NEWTABLE/SETLIST/SETTABLE of a compiled chunk.
func (x *exec) create(ti int, in Init) (*lua.LTable, error) {
	switch in.Kind {
	case "create":
		return x.L.CreateTable(in.Acap, in.Hcap), nil
	case "ctor":
		var b strings.Builder
		b.WriteString("return {")
		for _, v := range in.Pos {
			lit, ok := litVal(v, 0)
			if !ok {
				return nil, fmt.Errorf("harness: constructor value %v has no literal", v)
			}
			b.WriteString(lit + ", ")
		}
		for _, kv := range in.Keyed {
			kl, ok1 := litVal(kv.K, 0)
			vl, ok2 := litVal(kv.V, 0)
			if !ok1 || !ok2 {
				return nil, fmt.Errorf("harness: constructor field %v=%v has no literal", kv.K, kv.V)
			}
			b.WriteString("[" + kl + "] = " + vl + "; ")
		}
		b.WriteString("}")
		f, err := x.L.LoadString(b.String())
		if err != nil {
			return nil, fmt.Errorf("constructor %s does not load: %v", b.String(), err)
		}
		res, err := x.call(f, 1)
		if err != nil {
			return nil, fmt.Errorf("constructor %s raised: %v", b.String(), err)
		}
		tb, ok := res[0].(*lua.LTable)
		if !ok {
			return nil, fmt.Errorf("constructor %s returned %s", b.String(), res[0].Type())
		}
		for i, v := range in.Pos {
			x.mod[ti].set(vNum(float64(i+1)), v)
		}
		for _, kv := range in.Keyed {
			x.mod[ti].set(kv.K, kv.V)
		}
		return tb, nil
	}
	return x.L.NewTable(), nil
}

// call runs a Lua function protected and returns nret results.
func (x *exec) call(fn *lua.LFunction, nret int, args ...lua.LValue) ([]lua.LValue, error) {
	top := x.L.GetTop()
	if err := x.L.CallByParam(lua.P{Fn: fn, NRet: nret, Protect: true}, args...); err != nil {
		x.L.SetTop(top)
		return nil, err
	}
	res := make([]lua.LValue, nret)
	for i := range res {
		res[i] = x.L.Get(top + 1 + i)
	}
	x.L.SetTop(top)
	return res, nil
}

// protect runs a Go-API call that may raise a Lua error (L.RawSet, L.SetTable ...) inside a protected call.
func (x *exec) protect(f func()) error {
	_, err := x.call(x.L.NewFunction(func(*lua.LState) int { f(); return 0 }), 0)
	return err
}

// lv converts a case value into the real value.
func (x *exec) lv(v Val) lua.LValue {
	switch v.T {
	case "num":
		return lua.LNumber(v.F())
	case "str":
		return lua.LString(v.S)
	case "bool":
		return lua.LBool(v.B)
	case "obj":
		if v.I >= 0 && v.I < len(x.objs) {
			return x.objs[v.I]
		}
	}
	return lua.LNil
}

// back converts a real value into a case value; ok is false for a value that never was part of the case.
func (x *exec) back(lv lua.LValue) (Val, bool) {
	switch v := lv.(type) {
	case lua.LNumber:
		return vNum(float64(v)), true
	case lua.LString:
		return vStr(string(v)), true
	case lua.LBool:
		return vBool(bool(v)), true
	case *lua.LNilType:
		return vNil, true
	}
	for i, o := range x.objs {
		if o == lv {
			return vObj(i), true
		}
	}
	return vNil, false
}

func show(lv lua.LValue) string {
	if lv == nil {
		return "<Go nil>"
	}
	switch v := lv.(type) {
	case lua.LNumber:
		return "number " + strconv.FormatFloat(float64(v), 'g', -1, 64)
	case lua.LString:
		return "string " + strconv.Quote(string(v))
	}
	return lv.Type().String() + " " + lv.String()
}

// same reports whether the real value got is the value want (nil when !present).
func (x *exec) same(got lua.LValue, want Val, present bool) bool {
	if got == nil {
		return false
	}
	if !present || want.IsNil() {
		return got == lua.LNil
	}
	switch want.T {
	case "num":
		g, ok := got.(lua.LNumber)
		if !ok {
			return false
		}
		w := want.F()
		return float64(g) == w || math.IsNaN(float64(g)) && math.IsNaN(w)
	case "str":
		g, ok := got.(lua.LString)
		return ok && string(g) == want.S
	case "bool":
		g, ok := got.(lua.LBool)
		return ok && bool(g) == want.B
	case "obj":
		return want.I >= 0 && want.I < len(x.objs) && got == x.objs[want.I]
	}
	return false
}

// ---------------------------------------------------------------------------------------------
// literals

var luaKeywords = map[string]bool{"and": true, "break": true, "do": true, "else": true, "elseif": true, "end": true, "false": true,
	"for": true, "function": true, "if": true, "in": true, "local": true, "nil": true, "not": true, "or": true, "repeat": true,
	"return": true, "then": true, "true": true, "until": true, "while": true, "goto": true}

func isIdent(s string) bool {
	if s == "" || luaKeywords[s] {
		return false
	}
	for i := 0; i < len(s); i++ {
		c := s[i]
		if !(c == '_' || c >= 'a' && c <= 'z' || c >= 'A' && c <= 'Z' || i > 0 && c >= '0' && c <= '9') {
			return false
		}
	}
	return true
}

// litVal renders a scalar as Lua source; sp selects a spelling of small integers (1, 1.0, 1e0, 0x1).
func litVal(v Val, sp int) (string, bool) {
	switch v.T {
	case "nil", "":
		return "nil", true
	case "bool":
		return strconv.FormatBool(v.B), true
	case "str":
		var b strings.Builder
		b.WriteByte('"')
		for i := 0; i < len(v.S); i++ {
			c := v.S[i]
			if c >= 'a' && c <= 'z' || c >= 'A' && c <= 'Z' || c >= '0' && c <= '9' || c == '_' || c == ' ' || c == '.' || c == '-' {
				b.WriteByte(c)
			} else {
				fmt.Fprintf(&b, "\\%03d", c)
			}
		}
		b.WriteByte('"')
		return b.String(), true
	case "num":
		f := v.F()
		switch {
		case math.IsNaN(f):
			return "(0/0)", true
		case math.IsInf(f, 1):
			return "(1/0)", true
		case math.IsInf(f, -1):
			return "(-1/0)", true
		case f == 0 && math.Signbit(f):
			return "(-0)", true
		}
		if n, ok := v.integral(); ok {
			neg := ""
			if n < 0 {
				neg, n = "-", -n
			}
			s := strconv.Itoa(n)
			if n < 100000 {
				switch sp % 4 {
				case 1:
					s += ".0"
				case 2:
					s += "e0"
				case 3:
					s = "0x" + strconv.FormatInt(int64(n), 16)
				}
			}
			if neg != "" {
				return "(" + neg + s + ")", true
			}
			return s, true
		}
		s := strconv.FormatFloat(math.Abs(f), 'g', 17, 64)
		if f < 0 {
			return "(-" + s + ")", true
		}
		return s, true
	}
	return "", false
}

// ---------------------------------------------------------------------------------------------
// read paths

type readPath struct {
	name string
	f    func() (lua.LValue, error)
}

func (x *exec) readPaths(ti int, k Val) []readPath {
	tb, L := x.tabs[ti], x.L
	key := x.lv(k)
	ps := []readPath{
		{"LTable.RawGet", func() (lua.LValue, error) { return tb.RawGet(key), nil }},
		{"LState.RawGet", func() (lua.LValue, error) { return L.RawGet(tb, key), nil }},
		{"LState.GetTable", func() (v lua.LValue, err error) {
			err = x.protect(func() { v = L.GetTable(tb, key) })
			return
		}},
	}
	if n, ok := k.integral(); ok {
		ps = append(ps,
			readPath{"LTable.RawGetInt", func() (lua.LValue, error) { return tb.RawGetInt(n), nil }},
			readPath{"LState.RawGetInt", func() (lua.LValue, error) { return L.RawGetInt(tb, n), nil }})
	}
	if k.T == "str" {
		ps = append(ps,
			readPath{"LTable.RawGetString", func() (lua.LValue, error) { return tb.RawGetString(k.S), nil }},
			readPath{"LState.GetField", func() (v lua.LValue, err error) {
				err = x.protect(func() { v = L.GetField(tb, k.S) })
				return
			}})
	}
	if hashPartKey(k) {
		ps = append(ps, readPath{"LTable.RawGetH", func() (lua.LValue, error) { return tb.RawGetH(key), nil }})
	}
	return ps
}

// readKey reads k through every applicable Go path and through t[k] / rawget in Lua and compares with the model.
func (x *exec) readKey(ti int, k Val) error {
	m := x.mod[ti]
	var want Val
	present := false
	if mk, ok := k.key(); ok {
		want, present = m.get(mk)
	}
	for _, p := range x.readPaths(ti, k) {
		got, err := p.f()
		if err != nil {
			return fmt.Errorf("table %d: reading key %v through %s raised: %v", ti, k, p.name, err)
		}
		if !x.same(got, want, present) {
			return fmt.Errorf("table %d: key %v read through %s gives %s, the value last stored is %v", ti, k, p.name, show(got), wantStr(want, present))
		}
	}
	res, err := x.call(x.fn.get, 2, x.tabs[ti], x.lv(k))
	if err != nil {
		return fmt.Errorf("table %d: t[k]/rawget(t,k) with key %v raised: %v", ti, k, err)
	}
	for i, nm := range []string{"t[k] in Lua", "rawget(t,k) in Lua"} {
		if !x.same(res[i], want, present) {
			return fmt.Errorf("table %d: key %v read through %s gives %s, the value last stored is %v", ti, k, nm, show(res[i]), wantStr(want, present))
		}
	}
	return nil
}

func wantStr(v Val, present bool) string {
	if !present {
		return "nil (absent)"
	}
	return v.String()
}

// readLiteral reads through a compiled chunk with the key as a literal (constant-key opcodes).
func (x *exec) readLiteral(ti int, k Val, sp int) error {
	lit, ok := litVal(k, sp)
	if !ok {
		return nil
	}
	src := "local t = ...; return t[" + lit + "], " + lit
	if k.T == "str" && isIdent(k.S) && sp%2 == 0 {
		src = "local t = ...; return t." + k.S + ", " + lit
	}
	f, err := x.L.LoadString(src)
	if err != nil {
		return fmt.Errorf("chunk %q does not load: %v", src, err)
	}
	res, err := x.call(f, 2, x.tabs[ti])
	if err != nil {
		return fmt.Errorf("chunk %q raised: %v", src, err)
	}
	if !x.litDenotes(res[1], k) {
		x.discard = "literal_not_denoting_key"
		return nil
	}
	var want Val
	present := false
	if mk, ok := k.key(); ok {
		want, present = x.mod[ti].get(mk)
	}
	if !x.same(res[0], want, present) {
		return fmt.Errorf("table %d: chunk %q gives %s, the value last stored under that key is %v", ti, src, show(res[0]), wantStr(want, present))
	}
	return nil
}

// litDenotes checks that the literal evaluated to the intended key (number reading is another property's subject).
func (x *exec) litDenotes(got lua.LValue, k Val) bool {
	if k.T == "num" {
		g, ok := got.(lua.LNumber)
		if !ok {
			return false
		}
		f := k.F()
		return float64(g) == f || math.IsNaN(f) && math.IsNaN(float64(g))
	}
	return x.same(got, k, !k.IsNil())
}

// ---------------------------------------------------------------------------------------------
// verification after a step

func (x *exec) checkLen(ti int) error {
	tb, m := x.tabs[ti], x.mod[ti]
	report := func(name string, n int) error {
		if !m.isBorder(n) {
			return fmt.Errorf("table %d: %s = %d is not a border (t[%d] %s, t[%d] %s; borders of the model: %v)", ti, name, n,
				n, presentStr(n == 0 || m.has(intKey(n))), n+1, presentStr(m.has(intKey(n+1))), m.borders())
		}
		return nil
	}
	if err := report("LTable.Len()", tb.Len()); err != nil {
		return err
	}
	var ol int
	if err := x.protect(func() { ol = x.L.ObjLen(tb) }); err != nil {
		return fmt.Errorf("table %d: ObjLen raised: %v", ti, err)
	}
	if err := report("LState.ObjLen()", ol); err != nil {
		return err
	}
	res, err := x.call(x.fn.length, 2, tb)
	if err != nil {
		return fmt.Errorf("table %d: #t raised: %v", ti, err)
	}
	for i, nm := range []string{"#t", "table.getn(t)"} {
		f, ok := res[i].(lua.LNumber)
		if !ok || float64(f) != math.Trunc(float64(f)) || f < 0 || f > 1e9 {
			return fmt.Errorf("table %d: %s = %s is not a non-negative integer", ti, nm, show(res[i]))
		}
		if err := report(nm, int(f)); err != nil {
			return err
		}
	}
	_ = tb.MaxN() // nothing about MaxN is fixed by the property; it must only not blow up
	if bs := m.borders(); len(bs) > 1 {
		x.k.Class("len:several_borders")
	} else if len(bs) == 1 && bs[0] > 0 {
		x.k.Class("len:unique_positive_border")
	} else {
		x.k.Class("len:zero")
	}
	return nil
}

func presentStr(b bool) string {
	if b {
		return "~= nil"
	}
	return "== nil"
}

// checkVisits compares one complete traversal with the model: exactly the present keys, once each, current values.
func (x *exec) checkVisits(ti int, engine string, vis []kvPair) error {
	m := x.mod[ti]
	seen := make(map[mkey]bool, len(vis))
	for _, p := range vis {
		kv, ok := x.back(p.k)
		if !ok {
			return fmt.Errorf("table %d: %s produced the key %s, which was never stored", ti, engine, show(p.k))
		}
		mk, ok := kv.key()
		if !ok {
			return fmt.Errorf("table %d: %s produced the key %s", ti, engine, show(p.k))
		}
		want, present := m.get(mk)
		if !present {
			return fmt.Errorf("table %d: %s visits key %v (value %s), which is not present", ti, engine, kv, show(p.v))
		}
		if seen[mk] {
			return fmt.Errorf("table %d: %s visits key %v twice", ti, engine, kv)
		}
		seen[mk] = true
		if !x.same(p.v, want, true) {
			return fmt.Errorf("table %d: %s visits key %v with value %s, current value is %v", ti, engine, kv, show(p.v), want)
		}
	}
	if len(seen) != len(m.cur) {
		for _, mk := range m.present() {
			if !seen[mk] {
				return fmt.Errorf("table %d: %s visited %d of %d present keys; key %v (= %v) was skipped", ti, engine, len(seen), len(m.cur), m.spec[mk], m.cur[mk])
			}
		}
	}
	return nil
}

// collectLua runs a Lua loop that reports every pair to emit; more than limit pairs abort the loop with an error.
func (x *exec) collectLua(fn *lua.LFunction, tb *lua.LTable, limit int) ([]kvPair, error) {
	x.emits = x.emits[:0]
	x.emitN = 0
	x.emitMax = limit
	_, err := x.call(fn, 0, tb)
	return x.emits, err
}

// fullTraversals runs every traversal engine from nil to the end and compares with the model.
func (x *exec) fullTraversals(ti int) error {
	tb, m, L := x.tabs[ti], x.mod[ti], x.L
	limit := len(m.cur) + 8
	stepper := func(name string, next func(lua.LValue) (lua.LValue, lua.LValue)) error {
		var vis []kvPair
		k, v := next(lua.LNil)
		for k != lua.LNil {
			if k == nil {
				return fmt.Errorf("table %d: %s returned a Go nil key", ti, name)
			}
			vis = append(vis, kvPair{k, v})
			if len(vis) > limit {
				return fmt.Errorf("table %d: %s produced more than %d pairs for a table with %d keys", ti, name, limit, len(m.cur))
			}
			k, v = next(k)
		}
		return x.checkVisits(ti, name, vis)
	}
	if err := stepper("LTable.Next", func(k lua.LValue) (lua.LValue, lua.LValue) { return tb.Next(k) }); err != nil {
		return err
	}
	if err := stepper("LState.Next", func(k lua.LValue) (lua.LValue, lua.LValue) { return L.Next(tb, k) }); err != nil {
		return err
	}
	for _, e := range []struct {
		name string
		fn   *lua.LFunction
	}{{"next loop in Lua", x.fn.nextAll}, {"pairs loop in Lua", x.fn.pairsAll}} {
		vis, err := x.collectLua(e.fn, tb, limit)
		if err != nil {
			return fmt.Errorf("table %d: %s raised: %v", ti, e.name, err)
		}
		if err := x.checkVisits(ti, e.name, vis); err != nil {
			return err
		}
	}
	for _, name := range []string{"LTable.ForEach", "LState.ForEach"} {
		var vis []kvPair
		cb := func(k, v lua.LValue) { vis = append(vis, kvPair{k, v}) }
		if name == "LTable.ForEach" {
			tb.ForEach(cb)
		} else {
			L.ForEach(tb, cb)
		}
		if err := x.checkVisits(ti, name, vis); err != nil {
			return err
		}
	}
	// ipairs: 1..n up to the first nil, in order
	vis, err := x.collectLua(x.fn.ipairsAll, tb, m.seqLen()+8)
	if err != nil {
		return fmt.Errorf("table %d: ipairs loop raised: %v", ti, err)
	}
	n := m.seqLen()
	if len(vis) != n {
		return fmt.Errorf("table %d: ipairs visited %d elements, the first nil is at %d", ti, len(vis), n+1)
	}
	for i, p := range vis {
		if f, ok := p.k.(lua.LNumber); !ok || float64(f) != float64(i+1) {
			return fmt.Errorf("table %d: ipairs step %d has index %s", ti, i+1, show(p.k))
		}
		if want, _ := m.get(intKey(i + 1)); !x.same(p.v, want, true) {
			return fmt.Errorf("table %d: ipairs gives t[%d] = %s, current value is %v", ti, i+1, show(p.v), want)
		}
	}
	return nil
}

// sweep reads every touched key of table ti through every read path.
func (x *exec) sweep(ti int) error {
	m := x.mod[ti]
	for _, mk := range m.touched {
		if err := x.readKey(ti, m.spec[mk]); err != nil {
			return err
		}
	}
	return nil
}

// verify is run after every step (full) and after every mutation inside a traversal (reads and length only).
func (x *exec) verify(full bool, ti0 int) error {
	x.nverify++
	for ti := 0; ti < 2; ti++ {
		// the table the step did not address is re-verified every 8th time only
		if ti != ti0 && ti0 >= 0 && x.nverify%8 != 0 {
			continue
		}
		if err := x.sweep(ti); err != nil {
			return err
		}
		if err := x.checkLen(ti); err != nil {
			return err
		}
		if full {
			if err := x.fullTraversals(ti); err != nil {
				return err
			}
		}
	}
	if top := x.L.GetTop(); top != 0 && len(x.active) == 0 {
		return fmt.Errorf("harness: value stack not balanced (top=%d)", top)
	}
	return nil
}

// ---------------------------------------------------------------------------------------------
// steps

func keyClass(k Val) string {
	switch k.T {
	case "nil", "":
		return "nil"
	case "str":
		if _, err := strconv.ParseFloat(strings.TrimSpace(k.S), 64); err == nil {
			return "string_numeral"
		}
		return "string"
	case "bool":
		return "boolean"
	case "obj":
		switch {
		case k.I <= objT1:
			return "table_under_test"
		case k.I <= objX2:
			return "table"
		case k.I == objUD:
			return "userdata"
		}
		return "function"
	}
	f := k.F()
	switch {
	case math.IsNaN(f):
		return "nan"
	case math.IsInf(f, 0):
		return "infinity"
	case f == 0 && math.Signbit(f):
		return "minus_zero"
	case f == 0:
		return "zero"
	case f != math.Trunc(f):
		return "non_integral"
	case f < 0 && f >= -1e6:
		return "negative_int"
	case f < 0:
		return "huge_negative_int"
	case f <= 64:
		return "int_1_64"
	case f <= arrayGuardMax:
		return "int_65_6000"
	case f < maxArrayIndex:
		return "int_guarded_range"
	case f <= maxArrayIndex+1:
		return "int_MaxArrayIndex"
	case f <= 4294967296:
		return "int_2^31_2^32"
	}
	return "int_huge"
}

// noteStore keeps the traversal bookkeeping and the non-triviality flags in step with a store.
func (x *exec) noteStore(ti int, k Val, v Val) {
	m := x.mod[ti]
	mk, ok := k.key()
	if !ok {
		return
	}
	had := m.has(mk)
	for _, tr := range x.active {
		if tr.ti != ti {
			continue
		}
		if !had {
			// the manual: "behavior of next is undefined if, during the traversal, you assign any value to a non-existent field"
			tr.aborted = true
		} else if v.IsNil() {
			tr.cleared[mk] = true
			if !tr.visited[mk] {
				tr.didClr = true
			}
		}
	}
	if v.IsNil() {
		if had {
			x.deleted[ti][mk] = true
		}
	} else {
		if !had && x.deleted[ti][mk] {
			x.reinserted = true
			x.k.Class("event:reinsert_after_delete")
		}
		switch {
		case k.T == "str":
			x.sawStr = true
		case !hashPartKey(k):
			x.sawArr = true
		default:
			x.sawGen = true
		}
	}
	m.set(k, v)
}

var errLuaLevelVias = map[string]bool{"lua.index": true, "lua.rawset": true, "lua.literal": true, "L.RawSet": true, "L.SetTable": true, "lua.ctor_field": true}

func (x *exec) doSet(op *Op) error {
	if op.K == nil || op.V == nil {
		return nil
	}
	ti := op.T & 1
	tb, L := x.tabs[ti], x.L
	k, v := *op.K, *op.V
	key, val := x.lv(k), x.lv(v)
	_, goodKey := k.key()
	if guardedHard(k) {
		x.discard = "memory_guard"
		return nil
	}
	via := op.Via
	n, isInt := k.integral()
	// a path that does not apply to the key falls back to the generic one
	switch via {
	case "tb.RawSetInt", "L.RawSetInt":
		if !isInt {
			via = "tb.RawSet"
		}
	case "tb.RawSetString", "L.SetField":
		if k.T != "str" {
			via = "tb.RawSet"
		}
	case "tb.RawSetH":
		if !hashPartKey(k) {
			via = "tb.RawSet"
		}
	case "lua.literal":
		if _, ok := litVal(k, 0); !ok {
			via = "lua.index"
		}
	}
	if !goodKey && !errLuaLevelVias[via] {
		via = "lua.index" // nil/NaN keys are only defined (as an error) for Lua-level stores
	}
	var err error
	switch via {
	case "tb.RawSet":
		tb.RawSet(key, val)
	case "L.RawSet":
		err = x.protect(func() { L.RawSet(tb, key, val) })
	case "L.SetTable":
		err = x.protect(func() { L.SetTable(tb, key, val) })
	case "tb.RawSetInt":
		tb.RawSetInt(n, val)
	case "L.RawSetInt":
		L.RawSetInt(tb, n, val)
	case "tb.RawSetString":
		tb.RawSetString(k.S, val)
	case "L.SetField":
		err = x.protect(func() { L.SetField(tb, k.S, val) })
	case "tb.RawSetH":
		tb.RawSetH(key, val)
	case "lua.rawset":
		_, err = x.call(x.fn.rset, 0, tb, key, val)
	case "lua.ctor_field": // only for nil/NaN keys: a constructor field [k] = v on a throw-away table must raise too
		if goodKey {
			via = "lua.index"
			_, err = x.call(x.fn.set, 0, tb, key, val)
			break
		}
		lit, _ := litVal(k, 0)
		var f *lua.LFunction
		f, err = L.LoadString("local v = ...; return {1, [" + lit + "] = v, x = 2}")
		if err != nil {
			return fmt.Errorf("constructor chunk does not load: %v", err)
		}
		_, err = x.call(f, 1, val)
	case "lua.literal":
		lit, _ := litVal(k, op.Sp)
		src := "local t, v = ...; t[" + lit + "] = v; return " + lit
		if k.T == "str" && isIdent(k.S) && op.Sp%2 == 0 {
			src = "local t, v = ...; t." + k.S + " = v; return " + lit
		}
		var f *lua.LFunction
		f, err = L.LoadString(src)
		if err != nil {
			return fmt.Errorf("chunk %q does not load: %v", src, err)
		}
		var res []lua.LValue
		res, err = x.call(f, 1, tb, val)
		if err == nil && !x.litDenotes(res[0], k) {
			x.discard = "literal_not_denoting_key"
			return nil
		}
	default:
		via = "lua.index"
		_, err = x.call(x.fn.set, 0, tb, key, val)
	}
	x.k.Class("set:" + via)
	x.k.Class("key:" + keyClass(k))
	if !goodKey {
		x.k.Class("event:store_under_" + keyClass(k) + "_raises")
		if err == nil {
			return fmt.Errorf("table %d: store under a %s key through %s did not raise an error", ti, keyClass(k), via)
		}
		if ae, ok := err.(*lua.ApiError); !ok || ae.Type != lua.ApiErrorRun {
			return fmt.Errorf("table %d: store under a %s key through %s failed with %v instead of a Lua error", ti, keyClass(k), via, err)
		}
		return nil
	}
	if err != nil {
		return fmt.Errorf("table %d: store %v = %v through %s raised: %v", ti, k, v, via, err)
	}
	if v.IsNil() {
		x.k.Class("set:value_nil")
	} else if v.T == "bool" && !v.B {
		x.k.Class("set:value_false")
	}
	x.noteStore(ti, k, v)
	return nil
}

func (x *exec) doGet(op *Op) error {
	if op.K == nil {
		return nil
	}
	ti := op.T & 1
	k := *op.K
	x.k.Class("get:" + keyClass(k))
	if _, ok := k.key(); ok {
		x.mod[ti].touch(k) // from now on part of every sweep
		if err := x.readKey(ti, k); err != nil {
			return err
		}
	} else {
		// nothing can be stored under nil/NaN, so reading them gives nil (Lua level and the generic Go accessors)
		res, err := x.call(x.fn.get, 2, x.tabs[ti], x.lv(k))
		if err != nil {
			return fmt.Errorf("table %d: reading t[%v] raised: %v", ti, k, err)
		}
		if res[0] != lua.LNil || res[1] != lua.LNil {
			return fmt.Errorf("table %d: reading t[%v] gives %s / %s", ti, k, show(res[0]), show(res[1]))
		}
	}
	return x.readLiteral(ti, k, op.Sp)
}

func (x *exec) doAppend(op *Op) error {
	if op.V == nil || op.V.IsNil() {
		return nil
	}
	ti := op.T & 1
	tb, m := x.tabs[ti], x.mod[ti]
	v := *op.V
	val := x.lv(v)
	x.k.Class("append:" + op.Via)
	if op.Via == "lua.len_append" {
		res, err := x.call(x.fn.lappend, 1, tb, val)
		if err != nil {
			return fmt.Errorf("table %d: t[#t+1]=v raised: %v", ti, err)
		}
		f, ok := res[0].(lua.LNumber)
		if !ok || !m.isBorder(int(f)) || float64(int(f)) != float64(f) {
			return fmt.Errorf("table %d: #t = %s is not a border (borders: %v)", ti, show(res[0]), m.borders())
		}
		x.noteStore(ti, vNum(float64(int(f)+1)), v)
		return nil
	}
	bs := m.borders()
	var err error
	if op.Via == "go.Append" {
		tb.Append(val)
	} else {
		_, err = x.call(x.fn.tinsert, 0, tb, val)
	}
	if err != nil {
		return fmt.Errorf("table %d: table.insert(t, v) raised: %v", ti, err)
	}
	hit := -1
	for _, b := range bs {
		if got := tb.RawGet(lua.LNumber(b + 1)); got != lua.LNil {
			if hit >= 0 || !x.same(got, v, true) {
				return fmt.Errorf("table %d: after %s(t, %v) t[%d] = %s (borders before: %v)", ti, op.Via, v, b+1, show(got), bs)
			}
			hit = b
		}
	}
	if hit < 0 {
		return fmt.Errorf("table %d: %s(t, %v) did not store at n+1 for any border n of %v", ti, op.Via, v, bs)
	}
	x.noteStore(ti, vNum(float64(hit+1)), v)
	return nil
}

func (x *exec) doPop(op *Op) error {
	ti := op.T & 1
	tb, m := x.tabs[ti], x.mod[ti]
	x.k.Class("pop:" + op.Via)
	if op.Via == "lua.len_pop" {
		res, err := x.call(x.fn.lpop, 1, tb)
		if err != nil {
			return fmt.Errorf("table %d: t[#t]=nil raised: %v", ti, err)
		}
		f, ok := res[0].(lua.LNumber)
		if !ok || !m.isBorder(int(f)) || float64(int(f)) != float64(f) {
			return fmt.Errorf("table %d: #t = %s is not a border (borders: %v)", ti, show(res[0]), m.borders())
		}
		x.noteStore(ti, vNum(float64(int(f))), vNil)
		return nil
	}
	bs := m.borders()
	res, err := x.call(x.fn.tremove, 1, tb)
	if err != nil {
		return fmt.Errorf("table %d: table.remove(t) raised: %v", ti, err)
	}
	hit := -1
	for _, b := range bs {
		if b == 0 {
			continue
		}
		if got := tb.RawGet(lua.LNumber(b)); got == lua.LNil {
			if hit >= 0 {
				return fmt.Errorf("table %d: table.remove(t) cleared both t[%d] and t[%d]", ti, hit, b)
			}
			hit = b
		}
	}
	if hit < 0 {
		if len(bs) > 0 && bs[0] == 0 && res[0] == lua.LNil {
			return nil // #t may be 0: nothing to remove
		}
		return fmt.Errorf("table %d: table.remove(t) returned %s and removed nothing although #t must be one of %v", ti, show(res[0]), bs)
	}
	want, _ := m.get(intKey(hit))
	if !x.same(res[0], want, true) {
		return fmt.Errorf("table %d: table.remove(t) cleared t[%d] = %v but returned %s", ti, hit, want, show(res[0]))
	}
	for _, tr := range x.active {
		if tr.ti == ti {
			tr.shrunk = true
		}
	}
	x.noteStore(ti, vNum(float64(hit)), vNil)
	return nil
}

// sub runs one mutation scheduled inside a traversal and re-reads everything.
func (x *exec) sub(op *Op) error {
	var err error
	switch op.Op {
	case "set":
		err = x.doSet(op)
	case "pop":
		err = x.doPop(op)
	}
	if err != nil || x.discard != "" {
		return err
	}
	return x.verify(false, op.T&1)
}

func (x *exec) doTrav(op *Op) error {
	ti := op.T & 1
	tb, m, L := x.tabs[ti], x.mod[ti], x.L
	tr := &trav{ti: ti, engine: op.Via, start: map[mkey]bool{}, visited: map[mkey]bool{}, cleared: map[mkey]bool{}, sched: map[mkey][]*Op{}}
	for mk := range m.cur {
		tr.start[mk] = true
	}
	tr.limit = len(m.cur) + 8
	for _, e := range op.Sched {
		if mk, ok := e.At.key(); ok {
			tr.sched[mk] = append(tr.sched[mk], e.Ops...)
		}
	}
	x.active = append(x.active, tr)
	defer func() { x.active = x.active[:len(x.active)-1] }()

	visit := func(k, v lua.LValue) (stop bool) {
		if tr.err != nil || tr.aborted || x.discard != "" {
			return true
		}
		tr.nvis++
		if tr.nvis > tr.limit {
			tr.err = fmt.Errorf("table %d: %s produced more than %d pairs for a table that had %d keys", ti, tr.engine, tr.limit, len(tr.start))
			return true
		}
		kv, ok := x.back(k)
		mk, ok2 := kv.key()
		if !ok || !ok2 {
			tr.err = fmt.Errorf("table %d: %s produced the key %s, which was never stored", ti, tr.engine, show(k))
			return true
		}
		if !tr.start[mk] {
			tr.err = fmt.Errorf("table %d: %s visits key %v, which was not present when the traversal began", ti, tr.engine, kv)
			return true
		}
		if tr.visited[mk] {
			tr.err = fmt.Errorf("table %d: %s visits key %v twice", ti, tr.engine, kv)
			return true
		}
		want, present := m.get(mk)
		if !present {
			tr.err = fmt.Errorf("table %d: %s visits key %v (value %s) after it was cleared", ti, tr.engine, kv, show(v))
			return true
		}
		if !x.same(v, want, true) {
			tr.err = fmt.Errorf("table %d: %s visits key %v with value %s, current value is %v", ti, tr.engine, kv, show(v), want)
			return true
		}
		tr.visited[mk] = true
		for _, so := range tr.sched[mk] {
			so.T = ti
			if err := x.sub(so); err != nil {
				tr.err = err
				return true
			}
			if tr.aborted || x.discard != "" {
				return true
			}
		}
		return false
	}

	var callErr error
	switch op.Via {
	case "go.Next", "L.Next", "lua.next1":
		next := func(k lua.LValue) (lua.LValue, lua.LValue, error) {
			switch op.Via {
			case "go.Next":
				a, b := tb.Next(k)
				return a, b, nil
			case "L.Next":
				a, b := L.Next(tb, k)
				return a, b, nil
			}
			var res []lua.LValue
			var err error
			if k == lua.LNil {
				res, err = x.call(x.fn.next0, 2, tb)
			} else {
				res, err = x.call(x.fn.next1, 2, tb, k)
			}
			if err != nil {
				return lua.LNil, lua.LNil, err
			}
			return res[0], res[1], nil
		}
		k, v, err := next(lua.LNil)
		for err == nil && k != lua.LNil {
			if k == nil {
				tr.err = fmt.Errorf("table %d: %s returned a Go nil key", ti, op.Via)
				break
			}
			if visit(k, v) {
				break
			}
			k, v, err = next(k)
		}
		callErr = err
	case "lua.pairs_loop", "lua.next_loop":
		x.hook = visit
		fn := x.fn.pairsHook
		if op.Via == "lua.next_loop" {
			fn = x.fn.nextHook
		}
		_, callErr = x.call(fn, 0, tb)
		x.hook = nil
	case "tb.ForEach", "L.ForEach":
		cb := func(k, v lua.LValue) { visit(k, v) }
		if op.Via == "tb.ForEach" {
			tb.ForEach(cb)
		} else {
			L.ForEach(tb, cb)
		}
	default:
		return nil
	}
	x.k.Class("trav:" + op.Via)
	if x.discard != "" {
		return nil
	}
	if tr.err != nil {
		return tr.err
	}
	if callErr != nil {
		return fmt.Errorf("table %d: traversal through %s raised: %v", ti, op.Via, callErr)
	}
	if tr.aborted {
		x.k.Class("trav:abandoned_after_field_creation")
		return nil
	}
	for _, mk := range m.touched {
		if tr.start[mk] && !tr.cleared[mk] && !tr.visited[mk] {
			return fmt.Errorf("table %d: %s ended after %d of %d keys; key %v (= %v), present from the start and never cleared, was not visited",
				ti, op.Via, len(tr.visited), len(tr.start), m.spec[mk], m.cur[mk])
		}
	}
	if len(tr.cleared) > 0 {
		x.k.Class("trav:with_clear_during_traversal")
		x.travClear = true
	}
	if tr.didClr {
		x.k.Class("trav:cleared_key_not_yet_visited")
	}
	if tr.shrunk {
		x.k.Class("trav:table.remove_during_traversal")
	}
	if len(tr.sched) > 0 && len(tr.cleared) == 0 {
		x.k.Class("trav:with_overwrite_only")
	}
	return nil
}

// step executes one op and verifies the whole state afterwards.
func (x *exec) step(op *Op) (err error) {
	defer func() {
		if r := recover(); r != nil {
			err = fmt.Errorf("Go panic in %s via %s: %v", op.Op, op.Via, r)
		}
	}()
	switch op.Op {
	case "set":
		err = x.doSet(op)
	case "get":
		err = x.doGet(op)
	case "append":
		err = x.doAppend(op)
	case "pop":
		err = x.doPop(op)
	case "trav":
		err = x.doTrav(op)
	}
	if err != nil || x.discard != "" {
		return err
	}
	if op.Lite {
		if op.K != nil {
			if _, ok := op.K.key(); ok {
				if err := x.readKey(op.T&1, *op.K); err != nil {
					return err
				}
			}
		}
		return x.checkLen(op.T & 1)
	}
	return x.verify(true, op.T&1)
}

// finish records what the history covered.
func (x *exec) finish(c *Case, hash func() uint64) {
	if x.discard != "" {
		x.k.Discard(x.discard)
		return
	}
	if x.sawArr && x.sawStr && x.sawGen {
		x.k.Class("history:array+string+general_keys")
	}
	if x.reinserted && x.travClear && x.sawArr && x.sawStr && x.sawGen {
		x.k.Nontrivial(hash())
		x.k.Sample("history", 2, c)
	}
}
