-- debug lib tests
-- debug stuff are  partially implemented; hooks are not supported.

local function f1()
end
local env = {}
local mt = {}
debug.setfenv(f1, env)
assert(debug.getfenv(f1) == env)
debug.setmetatable(f1, mt)
assert(debug.getmetatable(f1) == mt)

local function f2()
  local info = debug.getinfo(1, "Slunf")
  assert(info.currentline == 14)
  assert(info.linedefined == 13)
  assert(info.func == f2)
  assert(info.lastlinedefined == 25)
  assert(info.nups == 1)
  assert(info.name == "f2")
  assert(info.what == "Lua")
  if string.find(_VERSION, "GopherLua") then
    assert(info.source == "db.lua")
  end
end
f2()

local function f3()
end
local info = debug.getinfo(f3)
assert(info.currentline == -1)
assert(info.linedefined == 28)
assert(info.func == f3)
assert(info.lastlinedefined == 29)
assert(info.nups == 0)
assert(info.name == nil)
assert(info.what == "Lua")
if string.find(_VERSION, "GopherLua") then
  assert(info.source == "db.lua")
end

local function f4()
  local a,b,c = 1,2,3
  local function f5()
    local name, value = debug.getlocal(2, 2)
    assert(debug.getlocal(2, 10) == nil)
    assert(name == "b")
    assert(value == 2)
    name = debug.setlocal(2, 2, 10)
    assert(debug.setlocal(2, 10, 10) == nil)
    assert(name == "b")

    local d = a
    local e = c

    local tb = debug.traceback("--msg--")
    assert(string.find(tb, "\\-\\-msg\\-\\-"))
    assert(string.find(tb, "in.*f5"))
    assert(string.find(tb, "in.*f4"))
  end
  f5()
  local name, value = debug.getupvalue(f5, 1)
  assert(debug.getupvalue(f5, 10) == nil)
  assert(name == "a")
  assert(value == 1)
  name = debug.setupvalue(f5, 1, 11)
  assert(debug.setupvalue(f5, 10, 11) == nil)
  assert(name == "a")
  assert(a == 11)

  assert(b == 10) -- changed by debug.setlocal in f4
end
f4()

local ok, msg = pcall(function()
  debug.getlocal(10, 1)
end)
assert(not ok and string.find(msg, "level out of range"))

local ok, msg = pcall(function()
  debug.setlocal(10, 1, 1)
end)
assert(not ok and string.find(msg, "level out of range"))

assert(debug.getinfo(100) == nil)
assert(debug.getinfo(1, "a") == nil)
