// Package c09: a table is a finite map with a valid length border and complete traversal.
//
// A rapid state machine drives two tables through Lua chunks and the Go table API next to a Go map model
// (model_test.go).  After every step every touched key is read back through every read path, #t/Len/ObjLen/getn must
// be a border of the model, and next/pairs/ForEach/ipairs must visit exactly what the model holds.  Traversals with
// clears/overwrites of existing fields (and table.remove at the end) in between are checked for "only keys present at
// the start, none twice, each with its current value, every never-cleared key".
package c09

import (
	"encoding/json"
	"fmt"
	"math"
	"strings"
	"testing"

	lua "github.com/yuin/gopher-lua"
	"pgregory.net/rapid"

	"verif/vf"
)

func TestMain(m *testing.M) { vf.Main(m) }

func TestReplay(t *testing.T) { vf.Replay(t) }

// ---------------------------------------------------------------------------------------------
// oracle (pure function of the case)

func runCase(k *vf.C, c *Case) error {
	x, err := newExec(k, c.Init)
	if err != nil {
		return err
	}
	defer x.close()
	if err := x.verify(true, -1); err != nil {
		return fmt.Errorf("right after creation: %v", err)
	}
	for i, op := range c.Ops {
		if err := x.step(op); err != nil {
			return fmt.Errorf("step %d (%s %s): %v", i, op.Op, op.Via, err)
		}
		if x.discard != "" {
			break
		}
	}
	x.finish(c, func() uint64 { return hashCase(c) })
	return nil
}

func hashCase(c *Case) uint64 {
	b, _ := json.Marshal(c)
	return vf.Hash(string(b))
}

var chkMachine = vf.Register("table_machine", runCase)
var chkTraverse = vf.Register("table_traverse", runCase)

// ---------------------------------------------------------------------------------------------
// generator: a state machine that looks at the model kept by the executor to aim its next action

type gen struct {
	rt   *rapid.T
	x    *exec
	c    *Case
	chk  *vf.Check[Case]
	ctr  int
	nops int
}

func pick(rt *rapid.T, label string, weights ...int) int {
	total := 0
	for _, w := range weights {
		total += w
	}
	r := rapid.IntRange(0, total-1).Draw(rt, label)
	for i, w := range weights {
		if r < w {
			return i
		}
		r -= w
	}
	return 0
}

var stringPool = []string{"a", "b", "x", "key", "1", "2", "1.0", "0", "-1", "1e0", "", " 1", "nil", "true", "n", "end", "_G", "a b", "\x00", "0x1",
	"a_long_key_name_that_is_not_short", "é"}

var hugePool = []float64{maxArrayIndex, maxArrayIndex + 1, maxArrayIndex + 2, 2147483647, 2147483648, 2147483649, 4294967296, 4294967297,
	9007199254740991, 9007199254740992, 9007199254740994, 9223372036854775808, 1e15, 1e100, 1.7976931348623157e308,
	-2147483648, -2147483649, -9007199254740992, -9223372036854775808, -1e100}

var floatPool = []float64{0.5, 1.5, 2.5, -0.5, -1.5, 0.1, 1e-300, 3.0000000000000004, maxArrayIndex + 0.5, 31.5, 0.9999999999999999, 5e-324}

func (g *gen) tableIdx() int {
	if rapid.IntRange(0, 9).Draw(g.rt, "tb") >= 8 {
		return 1
	}
	return 0
}

func (g *gen) key(m *tmodel, store bool) Val {
	rt := g.rt
	present, absent := m.present(), m.absent()
	w := []int{20, 14, 8, 12, 16, 6, 6, 4, 6, 6, 7, 2, 2}
	if len(present) == 0 {
		w[1] = 0
	}
	if len(absent) == 0 {
		w[2] = 0
	}
	if store {
		w[12] = 0
	}
	switch pick(rt, "keyclass", w...) {
	case 0:
		return vNum(float64(rapid.IntRange(1, 8).Draw(rt, "small")))
	case 1:
		return m.spec[present[rapid.IntRange(0, len(present)-1).Draw(rt, "existing")]]
	case 2:
		return m.spec[absent[rapid.IntRange(0, len(absent)-1).Draw(rt, "deleted")]]
	case 3:
		bs := m.borders()
		b := 0
		if len(bs) > 0 {
			b = bs[rapid.IntRange(0, len(bs)-1).Draw(rt, "border")]
		}
		n := b + []int{1, 0, 2, -1, 3, 50, 17}[rapid.IntRange(0, 6).Draw(rt, "off")]
		if n > arrayGuardMax {
			n = arrayGuardMax
		}
		return vNum(float64(n))
	case 4:
		return vStr(stringPool[rapid.IntRange(0, len(stringPool)-1).Draw(rt, "str")])
	case 5:
		return []Val{vNum(0), vNum(-1), vNum(math.Copysign(0, -1)), vNum(-2), vNum(-7), vNum(-100000)}[rapid.IntRange(0, 5).Draw(rt, "zeroneg")]
	case 6:
		return vNum(floatPool[rapid.IntRange(0, len(floatPool)-1).Draw(rt, "float")])
	case 7:
		return vBool(rapid.Bool().Draw(rt, "bool"))
	case 8:
		return vObj(rapid.IntRange(0, nObjs-1).Draw(rt, "obj"))
	case 9:
		if rapid.IntRange(0, 3).Draw(rt, "mid") == 0 {
			return vNum(float64([]int{100, 127, 128, 129, 1000, 4999, 5000, arrayGuardMax}[rapid.IntRange(0, 7).Draw(rt, "midbig")]))
		}
		return vNum(float64(rapid.IntRange(9, 70).Draw(rt, "midint")))
	case 10:
		return vNum(hugePool[rapid.IntRange(0, len(hugePool)-1).Draw(rt, "huge")])
	case 11:
		return []Val{vNum(math.Inf(1)), vNum(math.Inf(-1))}[rapid.IntRange(0, 1).Draw(rt, "inf")]
	default: // read-only probes inside the guarded array range
		return vNum(float64([]int{maxArrayIndex - 1, maxArrayIndex - 2, arrayGuardMax + 1, 1 << 20, 60000000}[rapid.IntRange(0, 4).Draw(rt, "probe")]))
	}
}

func (g *gen) val() Val {
	g.ctr++
	switch pick(g.rt, "valclass", 40, 20, 8, 4, 8, 3, 2, 1) {
	case 0:
		return vNum(float64(1000 + g.ctr))
	case 1:
		return vStr(fmt.Sprintf("v%d", g.ctr))
	case 2:
		return vBool(false)
	case 3:
		return vBool(true)
	case 4:
		return vObj(rapid.IntRange(0, nObjs-1).Draw(g.rt, "vobj"))
	case 5:
		return vNum(0)
	case 6:
		return vStr("")
	default:
		return vNum(math.NaN())
	}
}

func (g *gen) setVia(k Val) string {
	vias := []string{"lua.index", "tb.RawSet", "lua.rawset", "L.SetTable", "L.RawSet", "lua.literal"}
	if _, ok := litVal(k, 0); !ok {
		vias = vias[:5]
	}
	if _, ok := k.integral(); ok {
		vias = append(vias, "tb.RawSetInt", "L.RawSetInt", "tb.RawSetInt")
	}
	if k.T == "str" {
		vias = append(vias, "tb.RawSetString", "L.SetField", "tb.RawSetH")
	} else if hashPartKey(k) {
		vias = append(vias, "tb.RawSetH", "tb.RawSetH")
	}
	return vias[rapid.IntRange(0, len(vias)-1).Draw(g.rt, "via")]
}

// emit appends the op to the case and executes it; a failure is re-established from the recorded case by the
// registered oracle (which writes the replay file).
func (g *gen) emit(op *Op) {
	g.c.Ops = append(g.c.Ops, op)
	g.nops++
	if err := g.x.step(op); err != nil {
		g.fail(err)
	}
}

func (g *gen) fail(err error) {
	g.chk.Run(g.rt, g.c)
	g.rt.Fatalf("violation seen while generating did not reproduce from the recorded case: %v", err)
}

func (g *gen) done() bool { return g.nops >= 160 || g.x.discard != "" }

func (g *gen) actSet() {
	ti := g.tableIdx()
	k := g.key(g.x.mod[ti], true)
	if guarded(k) {
		k = vNum(float64(arrayGuardMax))
	}
	v := g.val()
	if rapid.IntRange(0, 99).Draw(g.rt, "delete") < 12 {
		v = vNil
	}
	g.emit(&Op{Op: "set", Via: g.setVia(k), T: ti, K: &k, V: &v, Sp: rapid.IntRange(0, 3).Draw(g.rt, "sp")})
}

func (g *gen) actDelete() {
	ti := g.tableIdx()
	m := g.x.mod[ti]
	p := m.present()
	if len(p) == 0 {
		g.actSet()
		return
	}
	k := m.spec[p[rapid.IntRange(0, len(p)-1).Draw(g.rt, "existing")]]
	v := vNil
	g.emit(&Op{Op: "set", Via: g.setVia(k), T: ti, K: &k, V: &v, Sp: rapid.IntRange(0, 3).Draw(g.rt, "sp")})
}

func (g *gen) actReinsert() {
	ti := g.tableIdx()
	m := g.x.mod[ti]
	a := m.absent()
	if len(a) == 0 {
		g.actSet()
		return
	}
	k := m.spec[a[rapid.IntRange(0, len(a)-1).Draw(g.rt, "deleted")]]
	if guarded(k) {
		k = vNum(float64(arrayGuardMax))
	}
	v := g.val()
	g.emit(&Op{Op: "set", Via: g.setVia(k), T: ti, K: &k, V: &v, Sp: rapid.IntRange(0, 3).Draw(g.rt, "sp")})
}

func (g *gen) actGet() {
	ti := g.tableIdx()
	var k Val
	switch rapid.IntRange(0, 9).Draw(g.rt, "getkind") {
	case 0:
		k = vNil
	case 1:
		k = vNum(math.NaN())
	default:
		k = g.key(g.x.mod[ti], false)
	}
	g.emit(&Op{Op: "get", T: ti, K: &k, Sp: rapid.IntRange(0, 3).Draw(g.rt, "sp")})
}

func (g *gen) actAppend() {
	ti := g.tableIdx()
	via := []string{"lua.len_append", "lua.tinsert", "go.Append"}[rapid.IntRange(0, 2).Draw(g.rt, "via")]
	n := 1
	if rapid.IntRange(0, 5).Draw(g.rt, "bulk") == 0 {
		n = rapid.IntRange(2, 40).Draw(g.rt, "n")
	}
	for i := 0; i < n && !g.done(); i++ {
		v := g.val()
		if v.IsNil() {
			continue
		}
		g.emit(&Op{Op: "append", Via: via, T: ti, V: &v, Lite: i < n-1})
	}
}

func (g *gen) actPop() {
	ti := g.tableIdx()
	via := []string{"lua.tremove", "lua.len_pop"}[rapid.IntRange(0, 1).Draw(g.rt, "via")]
	n := 1
	if rapid.IntRange(0, 5).Draw(g.rt, "bulk") == 0 {
		n = rapid.IntRange(2, 6).Draw(g.rt, "n")
	}
	for i := 0; i < n && !g.done(); i++ {
		g.emit(&Op{Op: "pop", Via: via, T: ti})
	}
}

func (g *gen) actFill() {
	ti := g.tableIdx()
	m := g.x.mod[ti]
	from := m.seqLen() + 1
	n := rapid.IntRange(1, 45).Draw(g.rt, "n")
	via := []string{"lua.index", "tb.RawSetInt", "tb.RawSet", "lua.literal"}[rapid.IntRange(0, 3).Draw(g.rt, "via")]
	down := rapid.IntRange(0, 4).Draw(g.rt, "down") == 0
	for i := 0; i < n && !g.done(); i++ {
		idx := from + i
		if down {
			idx = from + n - 1 - i
		}
		k, v := vNum(float64(idx)), g.val()
		g.emit(&Op{Op: "set", Via: via, T: ti, K: &k, V: &v, Lite: i < n-1})
	}
}

func (g *gen) actBadKey() {
	ti := g.tableIdx()
	k := vNil
	if rapid.Bool().Draw(g.rt, "nan") {
		k = vNum(math.NaN())
	}
	v := g.val()
	if rapid.IntRange(0, 4).Draw(g.rt, "nilvalue") == 0 {
		v = vNil // t[nil] = nil raises as well
	}
	via := []string{"lua.index", "lua.rawset", "L.RawSet", "L.SetTable", "lua.literal", "lua.ctor_field"}[rapid.IntRange(0, 5).Draw(g.rt, "via")]
	g.emit(&Op{Op: "set", Via: via, T: ti, K: &k, V: &v})
}

var travEngines = []string{"go.Next", "lua.pairs_loop", "tb.ForEach", "lua.next1", "lua.next_loop", "L.Next", "L.ForEach"}

// peekOrder learns the order in which the table is traversed right now (read-only), to aim the schedule.
func (g *gen) peekOrder(ti int) (ord []mkey) {
	m, tb := g.x.mod[ti], g.x.tabs[ti]
	defer func() {
		if recover() != nil {
			ord = m.present()
		}
	}()
	seen := map[mkey]bool{}
	k, _ := tb.Next(lua.LNil)
	for n := 0; k != lua.LNil && k != nil && n < len(m.cur)+8; n++ {
		if kv, ok := g.x.back(k); ok {
			if mk, ok := kv.key(); ok && m.has(mk) && !seen[mk] {
				seen[mk] = true
				ord = append(ord, mk)
			}
		}
		k, _ = tb.Next(k)
	}
	for _, mk := range m.present() {
		if !seen[mk] {
			ord = append(ord, mk)
		}
	}
	return ord
}

func simMaxBorder(m *tmodel) int {
	bs := m.borders()
	if len(bs) == 0 {
		return 0
	}
	return bs[len(bs)-1]
}

// sched draws, before the traversal starts, what happens when which key is visited.  Only existing fields are
// cleared or overwritten.  For ForEach (Go map order inside) the actions are restricted so that the final state
// does not depend on the order in which the hash part is visited.
func (g *gen) sched(ti int, engine string, density int) []SchedEnt {
	rt, m := g.rt, g.x.mod[ti]
	ord := g.peekOrder(ti)
	sim := m.clone()
	forEach := strings.HasSuffix(engine, "ForEach")
	var out []SchedEnt
	for idx, mk := range ord {
		if !sim.has(mk) {
			continue
		}
		if rapid.IntRange(0, 99).Draw(rt, "act") >= density {
			continue
		}
		self := m.spec[mk]
		arrVisit := !hashPartKey(self)
		var ahead, behind, aheadHash []mkey
		lastArr := arrVisit
		for j, o := range ord {
			if j == idx || !sim.has(o) {
				continue
			}
			oArr := !hashPartKey(m.spec[o])
			if j > idx && oArr {
				lastArr = false
			}
			if forEach && !oArr {
				// Under ForEach the hash part is visited in Go map order.  Another hash key may only be cleared, and
				// only one that has no entry of its own (it comes later in this loop and is skipped once cleared), so
				// that the final state does not depend on that order.
				if j > idx {
					aheadHash = append(aheadHash, o)
				}
				continue
			}
			if j > idx {
				ahead = append(ahead, o)
			} else {
				behind = append(behind, o)
			}
		}
		ent := SchedEnt{At: self}
		nops := rapid.IntRange(1, 2).Draw(rt, "nops")
		for j := 0; j < nops; j++ {
			w := []int{10, 8, 12, 5, 6, 8, 4, 0}
			if len(aheadHash) > 0 {
				w[7] = 8
			}
			if len(ahead) == 0 {
				w[2] = 0
			}
			if len(behind) == 0 {
				w[3] = 0
			}
			if len(ahead)+len(behind) == 0 {
				w[4] = 0
			}
			if lastArr {
				w[5], w[6] = 30, 10
			}
			if forEach && !arrVisit {
				w[4], w[5], w[6] = 0, 0, 0
			}
			var op *Op
			switch pick(rt, "what", w...) {
			case 0:
				k, v := self, vNil
				op = &Op{Op: "set", K: &k, V: &v}
			case 1:
				k, v := self, g.val()
				op = &Op{Op: "set", K: &k, V: &v}
			case 2:
				k, v := m.spec[ahead[rapid.IntRange(0, len(ahead)-1).Draw(rt, "ahead")]], vNil
				op = &Op{Op: "set", K: &k, V: &v}
			case 3:
				k, v := m.spec[behind[rapid.IntRange(0, len(behind)-1).Draw(rt, "behind")]], vNil
				op = &Op{Op: "set", K: &k, V: &v}
			case 4:
				all := append(append([]mkey(nil), ahead...), behind...)
				k, v := m.spec[all[rapid.IntRange(0, len(all)-1).Draw(rt, "other")]], g.val()
				op = &Op{Op: "set", K: &k, V: &v}
			case 5:
				op = &Op{Op: "pop", Via: "lua.tremove"}
			case 6:
				op = &Op{Op: "pop", Via: "lua.len_pop"}
			default:
				k, v := m.spec[aheadHash[rapid.IntRange(0, len(aheadHash)-1).Draw(rt, "aheadhash")]], vNil
				op = &Op{Op: "set", K: &k, V: &v}
			}
			if op.Op == "set" {
				if !sim.has(mustKey(*op.K)) {
					continue // already cleared by an earlier entry: would create a field
				}
				op.Via = g.setVia(*op.K)
				op.Sp = rapid.IntRange(0, 3).Draw(rt, "sp")
				sim.set(*op.K, *op.V)
			} else {
				b := simMaxBorder(sim)
				if b == 0 {
					continue
				}
				sim.set(vNum(float64(b)), vNil)
			}
			op.T = ti
			ent.Ops = append(ent.Ops, op)
		}
		if len(ent.Ops) > 0 {
			out = append(out, ent)
		}
	}
	return out
}

func mustKey(v Val) mkey { mk, _ := v.key(); return mk }

func (g *gen) actTrav(density int) {
	ti := g.tableIdx()
	engine := travEngines[rapid.IntRange(0, len(travEngines)-1).Draw(g.rt, "engine")]
	g.emit(&Op{Op: "trav", Via: engine, T: ti, Sched: g.sched(ti, engine, density)})
}

func genScalar(rt *rapid.T, i int, allowNil bool) Val {
	switch pick(rt, "cv", 5, 3, 1, 1, 2) {
	case 0:
		return vNum(float64(500 + i))
	case 1:
		return vStr(fmt.Sprintf("c%d", i))
	case 2:
		return vBool(false)
	case 3:
		return vBool(true)
	}
	if allowNil {
		return vNil
	}
	return vNum(float64(700 + i))
}

func genInit(rt *rapid.T) Init {
	switch pick(rt, "init", 5, 2, 3) {
	case 1:
		return Init{Kind: "create", Acap: rapid.IntRange(0, 40).Draw(rt, "acap"), Hcap: rapid.IntRange(0, 40).Draw(rt, "hcap")}
	case 2:
		in := Init{Kind: "ctor"}
		np := rapid.IntRange(0, 12).Draw(rt, "npos")
		for i := 0; i < np; i++ {
			in.Pos = append(in.Pos, genScalar(rt, i, true))
		}
		nk := rapid.IntRange(0, 5).Draw(rt, "nkeyed")
		used := map[mkey]bool{}
		cands := []Val{vStr("a"), vStr("x"), vStr("1"), vNum(0), vNum(-1), vNum(0.5), vBool(true), vBool(false), vNum(maxArrayIndex), vNum(4294967296),
			vStr("key"), vNum(1.5), vNum(-2)}
		for i := 0; i < nk; i++ {
			k := cands[rapid.IntRange(0, len(cands)-1).Draw(rt, "ck")]
			if used[mustKey(k)] {
				continue
			}
			used[mustKey(k)] = true
			in.Keyed = append(in.Keyed, KV{k, genScalar(rt, 100+i, false)})
		}
		return in
	}
	return Init{Kind: "new"}
}

// machine runs one generated history.  profile "general" is the broad machine; "traverse" builds a table quickly and
// spends its steps on traversals with mutation in between.
func machine(rt *rapid.T, chk *vf.Check[Case], profile string) {
	c := &Case{}
	c.Init[0] = genInit(rt)
	c.Init[1] = Init{Kind: "new"}
	x, err := newExec(chk.C, c.Init)
	if err != nil {
		chk.Run(rt, c)
		rt.Fatalf("creation failed while generating but not from the recorded case: %v", err)
	}
	defer x.close()
	g := &gen{rt: rt, x: x, c: c, chk: chk}
	if err := x.verify(true, -1); err != nil {
		g.fail(err)
	}
	guard := func(f func()) func(*rapid.T) {
		return func(*rapid.T) {
			if !g.done() { // a finished history turns further steps into no-ops (Skip would end the test as "no valid action")
				f()
			}
		}
	}
	var actions map[string]func(*rapid.T)
	if profile == "traverse" {
		// a quick mixed fill first
		n := rapid.IntRange(2, 14).Draw(rt, "prefill")
		for i := 0; i < n; i++ {
			g.actSet()
		}
		if rapid.Bool().Draw(rt, "seq") {
			g.actFill()
		}
		actions = map[string]func(*rapid.T){
			"trav1":    guard(func() { g.actTrav(55) }),
			"trav2":    guard(func() { g.actTrav(30) }),
			"trav3":    guard(func() { g.actTrav(80) }),
			"set":      guard(g.actSet),
			"reinsert": guard(g.actReinsert),
			"append":   guard(g.actAppend),
			"delete":   guard(g.actDelete),
		}
	} else {
		actions = map[string]func(*rapid.T){
			"set1":     guard(g.actSet),
			"set2":     guard(g.actSet),
			"set3":     guard(g.actSet),
			"delete":   guard(g.actDelete),
			"reinsert": guard(g.actReinsert),
			"get":      guard(g.actGet),
			"append":   guard(g.actAppend),
			"pop":      guard(g.actPop),
			"fill":     guard(g.actFill),
			"badkey":   guard(g.actBadKey),
			"trav":     guard(func() { g.actTrav(40) }),
		}
	}
	rt.Repeat(actions)
	if profile == "general" && !g.done() && rapid.Bool().Draw(rt, "more") {
		rt.Repeat(actions)
	}
	x.finish(c, func() uint64 { return hashCase(c) })
	chk.Eval()
}

func TestMachine(t *testing.T) {
	vf.Rapid(t, func(rt *rapid.T) { machine(rt, chkMachine, "general") })
}

func TestTraverse(t *testing.T) {
	vf.Rapid(t, func(rt *rapid.T) { machine(rt, chkTraverse, "traverse") })
}

// ---------------------------------------------------------------------------------------------
// regressions: the shrunk cases with which this check re-found the defects that were then repaired
// (F-TB4 RawGetInt, F-TB5 ForEach after table.remove, F-TB3 Next after the array part shrank, F-TB1 table.remove with a
// trailing nil slot).  They must keep passing; on the unrepaired tree each of them fails.

var regressionCases = []string{
	`{"init":[{"kind":"ctor","keyed":[{"k":{"t":"str","s":"a"},"v":{"t":"num","n":"600"}},{"k":{"t":"num","n":"-2"},"v":{"t":"num","n":"601"}}]},{"kind":"new"}],"ops":null}`,
	`{"init":[{"kind":"new"},{"kind":"new"}],"ops":[{"op":"append","via":"lua.len_append","v":{"t":"num","n":"1001"}},{"op":"append","via":"lua.len_append","v":{"t":"num","n":"1002"}},{"op":"trav","via":"tb.ForEach","sched":[{"at":{"t":"num","n":"1"},"ops":[{"op":"pop","via":"lua.tremove"}]}]}]}`,
	`{"init":[{"kind":"ctor","keyed":[{"k":{"t":"str","s":"a"},"v":{"t":"num","n":"600"}}]},{"kind":"new"}],"ops":[{"op":"set","via":"lua.index","k":{"t":"num","n":"1"},"v":{"t":"num","n":"1003"}},{"op":"set","via":"lua.index","k":{"t":"num","n":"2"},"v":{"t":"num","n":"1004"}},{"op":"trav","via":"go.Next","sched":[{"at":{"t":"num","n":"2"},"ops":[{"op":"pop","via":"lua.tremove"}]}]}]}`,
	`{"init":[{"kind":"ctor","keyed":[{"k":{"t":"str","s":"a"},"v":{"t":"num","n":"600"}}]},{"kind":"new"}],"ops":[{"op":"set","via":"lua.index","k":{"t":"num","n":"1"},"v":{"t":"num","n":"1003"}},{"op":"set","via":"lua.index","k":{"t":"num","n":"2"},"v":{"t":"num","n":"1004"}},{"op":"trav","via":"lua.pairs_loop","sched":[{"at":{"t":"num","n":"2"},"ops":[{"op":"pop","via":"lua.tremove"}]}]}]}`,
	`{"init":[{"kind":"new"},{"kind":"new"}],"ops":[{"op":"append","via":"lua.tinsert","v":{"t":"num","n":"1001"}},{"op":"append","via":"lua.tinsert","v":{"t":"num","n":"1002"}},{"op":"append","via":"lua.tinsert","v":{"t":"num","n":"1003"}},{"op":"pop","via":"lua.len_pop"},{"op":"pop","via":"lua.tremove"}]}`,
	`{"init":[{"kind":"new"},{"kind":"new"}],"ops":[{"op":"set","via":"tb.RawSetInt","k":{"t":"num","n":"0"},"v":{"t":"num","n":"1001"}},{"op":"set","via":"tb.RawSetInt","k":{"t":"num","n":"67108864"},"v":{"t":"bool","b":false}},{"op":"get","k":{"t":"num","n":"67108863"}}]}`,
}

func TestRegressions(t *testing.T) {
	for i, src := range regressionCases {
		var c Case
		if err := json.Unmarshal([]byte(src), &c); err != nil {
			t.Fatalf("regression case %d does not parse: %v", i, err)
		}
		chkMachine.Class("regression_case")
		t.Run(fmt.Sprintf("case%d", i), func(t *testing.T) { chkMachine.Run(t, &c) })
	}
}
