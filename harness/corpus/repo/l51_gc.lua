print('testing garbage collection')

collectgarbage()

_G["while"] = 234

limit = 5000



contCreate = 0

print('tables')
while contCreate <= limit do
  local a = {}; a = nil
  contCreate = contCreate+1
end

a = "a"

contCreate = 0
print('strings')
while contCreate <= limit do
  a = contCreate .. "b";
  a = string.gsub(a, '(%d%d*)', string.upper)
  a = "a"
  contCreate = contCreate+1
end


contCreate = 0

a = {}

print('functions')
function a:test ()
  while contCreate <= limit do
    loadstring(string.format("function temp(a) return 'a%d' end", contCreate))()
    assert(temp() == string.format('a%d', contCreate))
    contCreate = contCreate+1
  end
end

a:test()

-- collection of functions without locals, globals, etc.
do local f = function () end end


print("functions with errors")
prog = [[
do
  a = 10;
  function foo(x,y)
    a = sin(a+0.456-0.23e-12);
    return function (z) return sin(%x+z) end
  end
  local x = function (w) a=a+w; end
end
]]
do
  local step = 1
  if rawget(_G, "_soft") then step = 13 end
  for i=1, string.len(prog), step do
    for j=i, string.len(prog), step do
      pcall(loadstring(string.sub(prog, i, j)))
    end
  end
end

print('long strings')
x = "01234567890123456789012345678901234567890123456789012345678901234567890123456789"
assert(string.len(x)==80)
s = ''
n = 0
k = 300
while n < k do s = s..x; n=n+1; j=tostring(n)  end
assert(string.len(s) == k*80)
s = string.sub(s, 1, 20000)
s, i = string.gsub(s, '(%d%d%d%d)', math.sin)
assert(i==20000/4)
s = nil
x = nil

assert(_G["while"] == 234)


local bytes = gcinfo()
while 1 do
  local nbytes = gcinfo()
  if nbytes < bytes then break end   -- run until gc
  bytes = nbytes
  a = {}
end


local function dosteps (siz)
  collectgarbage()
  collectgarbage"stop"
  local a = {}
  for i=1,100 do a[i] = {{}}; local b = {} end
  local x = gcinfo()
  local i = 0
  repeat
    i = i+1
  until collectgarbage("step", siz)
  assert(gcinfo() < x)
  return i
end

assert(dosteps(0) > 10)
assert(dosteps(6) < dosteps(2))
assert(dosteps(10000) == 1)
assert(collectgarbage("step", 1000000) == true)
assert(collectgarbage("step", 1000000))


do
  local x = gcinfo()
  collectgarbage()
  collectgarbage"stop"
  repeat
    local a = {}
  until gcinfo() > 1000
  collectgarbage"restart"
  repeat
    local a = {}
  until gcinfo() < 1000
end

lim = 15
a = {}
-- fill a with `collectable' indices
for i=1,lim do a[{}] = i end
b = {}
for k,v in pairs(a) do b[k]=v end
-- remove all indices and collect them
for n in pairs(b) do
  a[n] = nil
  assert(type(n) == 'table' and next(n) == nil)
  collectgarbage()
end
b = nil
collectgarbage()
for n in pairs(a) do error'cannot be here' end
for i=1,lim do a[i] = i end
for i=1,lim do assert(a[i] == i) end


print('weak tables')
a = {}; setmetatable(a, {__mode = 'k'});
-- fill a with some `collectable' indices
for i=1,lim do a[{}] = i end
-- and some non-collectable ones
for i=1,lim do local t={}; a[t]=t end
for i=1,lim do a[i] = i end
for i=1,lim do local s=string.rep('@', i); a[s] = s..'#' end
collectgarbage()
local i = 0
for k,v in pairs(a) do assert(k==v or k..'#'==v); i=i+1 end
assert(i == 3*lim)

a = {}; setmetatable(a, {__mode = 'v'});
a[1] = string.rep('b', 21)
collectgarbage()
assert(a[1])   -- strings are *values*
a[1] = nil
-- fill a with some `collectable' values (in both parts of the table)
for i=1,lim do a[i] = {} end
for i=1,lim do a[i..'x'] = {} end
-- and some non-collectable ones
for i=1,lim do local t={}; a[t]=t end
for i=1,lim do a[i+lim]=i..'x' end
collectgarbage()
local i = 0
for k,v in pairs(a) do assert(k==v or k-lim..'x' == v); i=i+1 end
assert(i == 2*lim)

a = {}; setmetatable(a, {__mode = 'vk'});
local x, y, z = {}, {}, {}
-- keep only some items
a[1], a[2], a[3] = x, y, z
a[string.rep('$', 11)] = string.rep('$', 11)
-- fill a with some `collectable' values
for i=4,lim do a[i] = {} end
for i=1,lim do a[{}] = i end
for i=1,lim do local t={}; a[t]=t end
collectgarbage()
assert(next(a) ~= nil)
local i = 0
for k,v in pairs(a) do
  assert((k == 1 and v == x) or
         (k == 2 and v == y) or
         (k == 3 and v == z) or k==v);
  i = i+1
end
assert(i == 4)
x,y,z=nil
collectgarbage()
assert(next(a) == string.rep('$', 11))


-- testing userdata
collectgarbage("stop")   -- stop collection
local u = newproxy(true)
local s = 0
local a = {[u] = 0}; setmetatable(a, {__mode = 'vk'})
for i=1,10 do a[newproxy(u)] = i end
for k in pairs(a) do assert(getmetatable(k) == getmetatable(u)) end
local a1 = {}; for k,v in pairs(a) do a1[k] = v end
for k,v in pairs(a1) do a[v] = k end
for i =1,10 do assert(a[i]) end
getmetatable(u).a = a1
getmetatable(u).u = u
do
  local u = u
  getmetatable(u).__gc = function (o)
    assert(a[o] == 10-s)
    assert(a[10-s] == nil) -- udata already removed from weak table
    assert(getmetatable(o) == getmetatable(u))
    assert(getmetatable(o).a[o] == 10-s)
    s=s+1
  end
end
a1, u = nil
assert(next(a) ~= nil)
collectgarbage()
assert(s==11)
collectgarbage()
assert(next(a) == nil)  -- finalized keys are removed in two cycles


-- __gc x weak tables
local u = newproxy(true)
setmetatable(getmetatable(u), {__mode = "v"})
getmetatable(u).__gc = function (o) os.exit(1) end  -- cannot happen
collectgarbage()

local u = newproxy(true)
local m = getmetatable(u)
m.x = {[{0}] = 1; [0] = {1}}; setmetatable(m.x, {__mode = "kv"});
m.__gc = function (o)
  assert(next(getmetatable(o).x) == nil)
  m = 10
end
u, m = nil
collectgarbage()
assert(m==10)


-- errors during collection
u = newproxy(true)
getmetatable(u).__gc = function () error "!!!" end
u = nil
assert(not pcall(collectgarbage))


if not rawget(_G, "_soft") then
  print("deep structures")
  local a = {}
  for i = 1,200000 do
    a = {next = a}
  end
  collectgarbage()
end

-- create many threads with self-references and open upvalues
local thread_id = 0
local threads = {}

function fn(thread)
    local x = {}
    threads[thread_id] = function()
                             thread = x
                         end
    coroutine.yield()
end

while thread_id < 1000 do
    local thread = coroutine.create(fn)
    coroutine.resume(thread, thread)
    thread_id = thread_id + 1
end



-- create a userdata to be collected when state is closed
do
  local newproxy,assert,type,print,getmetatable =
        newproxy,assert,type,print,getmetatable
  local u = newproxy(true)
  local tt = getmetatable(u)
  ___Glob = {u}   -- avoid udata being collected before program end
  tt.__gc = function (o)
    assert(getmetatable(o) == tt)
    -- create new objects during GC
    local a = 'xuxu'..(10+3)..'joao', {}
    ___Glob = o  -- ressurect object!
    newproxy(o)  -- creates a new one with same metatable
    print(">>> closing state " .. "<<<\n")
  end
end

-- create several udata to raise errors when collected while closing state
do
  local u = newproxy(true)
  getmetatable(u).__gc = function (o) return o + 1 end
  table.insert(___Glob, u)  -- preserve udata until the end
  for i = 1,10 do table.insert(___Glob, newproxy(u)) end
end

print('OK')
