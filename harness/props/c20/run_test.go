// run_test.go: executes a history against gopher-lua, observes it (loader invocation log, values by identity,
// package.loaded / package.preload / globals after every step) and compares with the model.
package c20

import (
	"fmt"
	"os"
	"path/filepath"
	"sort"
	"strings"

	lua "github.com/yuin/gopher-lua"
	"github.com/yuin/gopher-lua/parse"

	"verif/gl"
	"verif/vf"
)

// ---------------------------------------------------------------------------------------------
// Lua text of loaders and snippets

const prelude = "local require, pcall, package, error, module, __enter, __new, __str = require, pcall, package, error, module, __enter, __new, __str\n"

func luaValue(lid, kind string) string {
	switch kind {
	case "nil":
		return "nil"
	case "false":
		return "false"
	case "true":
		return "true"
	case "table":
		return fmt.Sprintf("__new(%q)", lid)
	case "string":
		return fmt.Sprintf("__str(%q)", lid)
	}
	panic("bad value kind " + kind)
}

// loaderBody is the statement list of a loader (a vararg chunk or the body of function(...)).
func loaderBody(ld *Loader) string {
	var b strings.Builder
	fmt.Fprintf(&b, "__enter(%q, ...)\n", ld.ID)
	for _, s := range ld.Steps {
		switch s.Op {
		case "require":
			fmt.Fprintf(&b, "require(%q)\n", s.Mod)
		case "prequire":
			fmt.Fprintf(&b, "pcall(require, %q)\n", s.Mod)
		case "setloaded":
			fmt.Fprintf(&b, "package.loaded[%q] = %s\n", s.Mod, luaValue(ld.ID, s.Val))
		case "module":
			fmt.Fprintf(&b, "module(%q)\n", s.Mod)
		default:
			panic("bad loader step " + s.Op)
		}
	}
	switch ld.Ret {
	case "nothing":
	case "raise":
		fmt.Fprintf(&b, "error(%q)\n", "boom:"+ld.ID)
	case "raise_table":
		fmt.Fprintf(&b, "error(%s)\n", luaValue(ld.ID, "table"))
	default:
		fmt.Fprintf(&b, "return %s\n", luaValue(ld.ID, ld.Ret))
	}
	return b.String()
}

func fileContent(ld *Loader) string {
	if ld.Syntax {
		return fmt.Sprintf("-- %s\nreturn return (\n", ld.ID)
	}
	return prelude + loaderBody(ld)
}

func preloadSnippet(mod string, ld *Loader) string {
	return prelude + fmt.Sprintf("package.preload[%q] = function(...)\n%send\n", mod, loaderBody(ld))
}

var protoCache = map[string]*lua.FunctionProto{}

func compile(src string) (*lua.FunctionProto, error) {
	if p, ok := protoCache[src]; ok {
		return p, nil
	}
	chunk, err := parse.Parse(strings.NewReader(src), "<c20>")
	if err != nil {
		return nil, err
	}
	p, err := lua.Compile(chunk, "<c20>")
	if err != nil {
		return nil, err
	}
	if len(protoCache) > 4000 { // random loaders are mostly unique texts: keep the cache (and the heap) small
		protoCache = map[string]*lua.FunctionProto{}
	}
	protoCache[src] = p
	return p, nil
}

// ---------------------------------------------------------------------------------------------
// scratch files: the directory is kept in step with what the history says exists, lazily (only before an action
// that can search the path), so that consecutive cases with the same files do not touch the disk.

var (
	diskRoot  string
	diskFiles = map[string]string{} // relative name -> content actually on disk
)

func root() string {
	if diskRoot == "" {
		diskRoot = filepath.Join(gl.Scratch(), "req")
		os.RemoveAll(diskRoot)
		os.MkdirAll(diskRoot, 0o755)
	}
	return diskRoot
}

func syncDisk(want map[string]string) error {
	r := root()
	if len(diskFiles) > 0 {
		names := make([]string, 0, len(diskFiles))
		for n := range diskFiles {
			names = append(names, n)
		}
		sort.Strings(names)
		for _, n := range names {
			if w, ok := want[n]; !ok || w != diskFiles[n] {
				if err := os.Remove(filepath.Join(r, n)); err != nil && !os.IsNotExist(err) {
					return err
				}
				delete(diskFiles, n)
			}
		}
	}
	if len(want) > 0 {
		names := make([]string, 0, len(want))
		for n := range want {
			names = append(names, n)
		}
		sort.Strings(names)
		for _, n := range names {
			if _, ok := diskFiles[n]; ok {
				continue
			}
			p := filepath.Join(r, n)
			if err := os.MkdirAll(filepath.Dir(p), 0o755); err != nil {
				return err
			}
			if err := os.WriteFile(p, []byte(want[n]), 0o644); err != nil {
				return err
			}
			diskFiles[n] = want[n]
		}
	}
	return nil
}

func realPath(templates []string) string {
	out := make([]string, len(templates))
	for i, t := range templates {
		out[i] = strings.ReplaceAll(t, "$S", root())
	}
	return strings.Join(out, ";")
}

// ---------------------------------------------------------------------------------------------
// running a history

type runCtx struct {
	L      *lua.LState
	tags   map[*lua.LTable]string
	ctr    map[string]int
	events []event
	got    []lua.LValue // what the last __obs call received
	files  map[string]string
	opened map[string]bool
}

type observed struct {
	events []event
	hasRes bool
	ok     bool
	v      val
	errStr string
	errIs  bool // the error value is a string
	errV   val  // the error value otherwise
	// register
	regRet    val
	regGlobal val
	regFn     string
	loaded    [nNames]val
	preload   [nNames]bool
	globals   [nNames]bool
}

var stdOpeners = map[string]lua.LGFunction{
	"package": lua.OpenPackage, "_G": lua.OpenBase, "table": lua.OpenTable, "io": lua.OpenIo, "os": lua.OpenOs,
	"string": lua.OpenString, "math": lua.OpenMath, "debug": lua.OpenDebug, "channel": lua.OpenChannel,
	"coroutine": lua.OpenCoroutine,
}

// the name handed to the opener, as linit.go does it
var stdOpenArg = map[string]string{"_G": ""}

func newRun(c *Case) (*runCtx, error) {
	rc := &runCtx{tags: map[*lua.LTable]string{}, ctr: map[string]int{}, files: map[string]string{}, opened: map[string]bool{}}
	if len(c.Open) == 0 {
		rc.L = lua.NewState()
		for _, n := range StdLibs {
			rc.opened[n] = true
		}
	} else {
		rc.L = lua.NewState(lua.Options{SkipOpenLibs: true})
		for _, n := range c.Open {
			f := stdOpeners[n]
			if f == nil {
				return nil, fmt.Errorf("bad case: unknown library %q", n)
			}
			arg, ok := stdOpenArg[n]
			if !ok {
				arg = n
			}
			if err := rc.L.CallByParam(lua.P{Fn: rc.L.NewFunction(f), NRet: 0, Protect: true}, lua.LString(arg)); err != nil {
				return nil, fmt.Errorf("opening library %q failed: %v", n, err)
			}
			rc.opened[n] = true
		}
		if !rc.opened["package"] || !rc.opened["_G"] {
			return nil, fmt.Errorf("bad case: package and _G must be opened")
		}
	}
	L := rc.L
	L.SetGlobal("__enter", L.NewFunction(func(L *lua.LState) int {
		rc.enter(L.CheckString(1), L.Get(2))
		return 0
	}))
	L.SetGlobal("__new", L.NewFunction(func(L *lua.LState) int {
		L.Push(rc.mk(L, L.CheckString(1), "table"))
		return 1
	}))
	L.SetGlobal("__str", L.NewFunction(func(L *lua.LState) int {
		L.Push(rc.mk(L, L.CheckString(1), "string"))
		return 1
	}))
	L.SetGlobal("__obs", L.NewFunction(func(L *lua.LState) int {
		rc.got = rc.got[:0]
		for i := 1; i <= L.GetTop(); i++ {
			rc.got = append(rc.got, L.Get(i))
		}
		return 0
	}))
	return rc, nil
}

func (rc *runCtx) enter(lid string, arg lua.LValue) {
	a := "<" + arg.Type().String() + ">"
	if s, ok := arg.(lua.LString); ok {
		a = string(s)
	}
	rc.events = append(rc.events, event{lid, a})
}

func (rc *runCtx) mk(L *lua.LState, lid, kind string) lua.LValue {
	switch kind {
	case "nil", "nothing":
		return lua.LNil
	case "false":
		return lua.LFalse
	case "true":
		return lua.LTrue
	case "table":
		rc.ctr[lid]++
		tag := fmt.Sprintf("L:%s#%d", lid, rc.ctr[lid])
		t := L.NewTable()
		t.RawSetString("tag", lua.LString(tag))
		rc.tags[t] = tag
		return t
	case "string":
		rc.ctr[lid]++
		return lua.LString(fmt.Sprintf("S:%s#%d", lid, rc.ctr[lid]))
	}
	panic("bad value kind " + kind)
}

func (rc *runCtx) doLua(src string) error {
	p, err := compile(src)
	if err != nil {
		return fmt.Errorf("harness: snippet does not compile: %v\n%s", err, src)
	}
	rc.L.Push(rc.L.NewFunctionFromProto(p))
	return rc.L.PCall(0, 0, nil)
}

func (rc *runCtx) pkgTable(field string) (*lua.LTable, error) {
	pkg, ok := rc.L.GetGlobal("package").(*lua.LTable)
	if !ok {
		return nil, fmt.Errorf("global package is not a table")
	}
	t, ok := pkg.RawGetString(field).(*lua.LTable)
	if !ok {
		return nil, fmt.Errorf("package.%s is not a table", field)
	}
	return t, nil
}

// globalAt is a raw lookup of a dotted global path (no creation).
func (rc *runCtx) globalAt(path string) lua.LValue {
	var cur lua.LValue = rc.L.Get(lua.GlobalsIndex)
	for _, p := range strings.Split(path, ".") {
		t, ok := cur.(*lua.LTable)
		if !ok {
			return lua.LNil
		}
		cur = t.RawGetString(p)
	}
	return cur
}

// desc turns a real value into the abstract value the model talks about; tables by identity.
func (rc *runCtx) desc(v lua.LValue) val {
	switch x := v.(type) {
	case *lua.LNilType:
		return vNil
	case lua.LBool:
		if bool(x) {
			return vTrue
		}
		return vFalse
	case lua.LString:
		return val{'s', string(x)}
	case *lua.LUserData:
		return vSent
	case *lua.LTable:
		if tag, ok := rc.tags[x]; ok {
			return val{'T', tag}
		}
		if x == rc.L.Get(lua.GlobalsIndex) {
			return val{'T', "G:_G"}
		}
		for _, n := range Names {
			if rc.globalAt(n) == lua.LValue(x) {
				return val{'T', "G:" + n}
			}
		}
		for _, n := range StdLibs {
			if rc.globalAt(n) == lua.LValue(x) {
				return val{'T', "G:" + n}
			}
		}
		return val{'?', fmt.Sprintf("unknown table %p", x)}
	}
	return val{'?', v.Type().String() + " " + v.String()}
}

// goLoader interprets a Loader as an LGFunction (what a host passes to PreloadModule).
func (rc *runCtx) goLoader(ld *Loader) lua.LGFunction {
	return func(L *lua.LState) int {
		rc.enter(ld.ID, L.Get(1))
		for _, s := range ld.Steps {
			switch s.Op {
			case "require":
				L.Push(L.GetGlobal("require"))
				L.Push(lua.LString(s.Mod))
				L.Call(1, 1)
				L.Pop(1)
			case "prequire":
				top := L.GetTop()
				L.Push(L.GetGlobal("require"))
				L.Push(lua.LString(s.Mod))
				L.PCall(1, 1, nil)
				L.SetTop(top)
			case "setloaded":
				loaded := L.GetField(L.GetGlobal("package"), "loaded")
				L.SetField(loaded, s.Mod, rc.mk(L, ld.ID, s.Val))
			default:
				L.RaiseError("harness: loader step %s is not available to a Go loader", s.Op)
			}
		}
		switch ld.Ret {
		case "nothing":
			return 0
		case "raise":
			L.RaiseError("boom:%s", ld.ID)
		case "raise_table":
			L.Error(rc.mk(L, ld.ID, "table"), 1)
		}
		L.Push(rc.mk(L, ld.ID, ld.Ret))
		return 1
	}
}

var hostFuncs = map[string]lua.LGFunction{
	"hostfn": func(L *lua.LState) int {
		L.Push(lua.LString("host function reached"))
		return 1
	},
}

func (rc *runCtx) setResult(o *observed, err error, v lua.LValue) {
	o.hasRes = true
	if err == nil {
		o.ok = true
		o.v = rc.desc(v)
		return
	}
	ae, isApi := err.(*lua.ApiError)
	if !isApi || ae.Object == nil {
		o.errIs = true
		o.errStr = err.Error()
		return
	}
	if s, ok := ae.Object.(lua.LString); ok {
		o.errIs = true
		o.errStr = string(s)
	} else {
		o.errV = rc.desc(ae.Object)
	}
}

// requireVia performs pcall(require, mod) the way the action says and records the outcome.
func (rc *runCtx) requireVia(o *observed, mod, via string) error {
	L := rc.L
	switch via {
	case "go":
		top := L.GetTop()
		err := L.CallByParam(lua.P{Fn: L.GetGlobal("require"), NRet: 1, Protect: true}, lua.LString(mod))
		var v lua.LValue = lua.LNil
		if err == nil {
			v = L.Get(-1)
		}
		L.SetTop(top)
		rc.setResult(o, err, v)
		return nil
	case "co":
		if err := rc.doLua(fmt.Sprintf("__obs(coroutine.wrap(function() return pcall(require, %q) end)())", mod)); err != nil {
			return fmt.Errorf("harness: require snippet failed: %v", err)
		}
	default:
		if err := rc.doLua(fmt.Sprintf("__obs(pcall(require, %q))", mod)); err != nil {
			return fmt.Errorf("harness: require snippet failed: %v", err)
		}
	}
	if len(rc.got) < 1 {
		return fmt.Errorf("harness: pcall returned nothing")
	}
	o.hasRes = true
	okv, isBool := rc.got[0].(lua.LBool)
	if !isBool {
		return fmt.Errorf("harness: pcall's first result is %v", rc.got[0])
	}
	var second lua.LValue = lua.LNil
	if len(rc.got) > 1 {
		second = rc.got[1]
	}
	if bool(okv) {
		if len(rc.got) != 2 {
			return fmt.Errorf("require returned %d values, want exactly 1", len(rc.got)-1)
		}
		o.ok = true
		o.v = rc.desc(second)
		return nil
	}
	if s, ok := second.(lua.LString); ok {
		o.errIs = true
		o.errStr = string(s)
	} else {
		o.errV = rc.desc(second)
	}
	return nil
}

func (rc *runCtx) step(a *Action, idx int) (o observed, err error) {
	L := rc.L
	rc.events = nil
	switch a.Op {
	case "require", "std_probe":
		if err = syncDisk(rc.files); err != nil {
			return o, fmt.Errorf("harness: scratch files: %v", err)
		}
		if err = rc.requireVia(&o, a.Mod, a.Via); err != nil {
			return o, err
		}
		if a.Op == "std_probe" {
			o.regGlobal = rc.desc(rc.globalAt(a.Mod))
		}
	case "preload_lua":
		if err = rc.doLua(preloadSnippet(a.Mod, a.Ld)); err != nil {
			return o, fmt.Errorf("harness: preload snippet failed: %v", err)
		}
	case "preload_go":
		L.PreloadModule(a.Mod, rc.goLoader(a.Ld))
	case "preload_clear":
		err = rc.doLua(fmt.Sprintf("package.preload[%q] = nil", a.Mod))
	case "preload_replace":
		if a.Val == "empty" {
			err = rc.doLua("package.preload = {}")
		} else {
			err = rc.doLua("local n = {}; for k, v in pairs(package.preload) do n[k] = v end; package.preload = n")
		}
	case "loaded_clear":
		err = rc.doLua(fmt.Sprintf("package.loaded[%q] = nil", a.Mod))
	case "loaded_set":
		err = rc.doLua(fmt.Sprintf("package.loaded[%q] = %s", a.Mod, luaValue(fmt.Sprintf("act%d", idx), a.Val)))
	case "file_write":
		rc.files[a.File] = fileContent(a.Ld)
	case "file_remove":
		delete(rc.files, a.File)
	case "path_set":
		err = rc.doLua(fmt.Sprintf("package.path = %q", realPath(a.Path)))
	case "register":
		if err = syncDisk(rc.files); err != nil {
			return o, fmt.Errorf("harness: scratch files: %v", err)
		}
		ret := L.RegisterModule(a.Mod, hostFuncs)
		o.regRet = rc.desc(ret)
		o.regGlobal = rc.desc(rc.globalAt(a.Mod))
		if err = rc.requireVia(&o, a.Mod, a.Via); err != nil {
			return o, err
		}
		// the function must be reachable through the value require gives and through the global name
		o.regFn = "ok"
		if t, ok := ret.(*lua.LTable); !ok {
			o.regFn = "RegisterModule did not return a table"
		} else if fn, ok := t.RawGetString("hostfn").(*lua.LFunction); !ok {
			o.regFn = "hostfn is not in the module table"
		} else if e := L.CallByParam(lua.P{Fn: fn, NRet: 1, Protect: true}); e != nil {
			o.regFn = "calling hostfn failed: " + e.Error()
		} else {
			if s, _ := L.Get(-1).(lua.LString); string(s) != "host function reached" {
				o.regFn = "hostfn returned " + L.Get(-1).String()
			}
			L.Pop(1)
		}
	default:
		return o, fmt.Errorf("bad case: unknown action %q", a.Op)
	}
	if err != nil {
		return o, fmt.Errorf("harness: action %s failed: %v", a.Op, err)
	}
	o.events = rc.events
	loaded, err := rc.pkgTable("loaded")
	if err != nil {
		return o, err
	}
	preload, err := rc.pkgTable("preload")
	if err != nil {
		return o, err
	}
	for i, n := range Names {
		o.loaded[i] = rc.desc(loaded.RawGetString(n))
		o.preload[i] = preload.RawGetString(n) != lua.LNil
		_, isT := rc.globalAt(n).(*lua.LTable)
		o.globals[i] = isT
	}
	return o, nil
}

// ---------------------------------------------------------------------------------------------
// comparison

func sameEvents(a, b []event) bool {
	if len(a) != len(b) {
		return false
	}
	for i := range a {
		if a[i] != b[i] {
			return false
		}
	}
	return true
}

func fmtEvents(ev []event) string {
	if len(ev) == 0 {
		return "[no loader ran]"
	}
	var p []string
	for _, e := range ev {
		p = append(p, fmt.Sprintf("%s(%s)", e.Lid, e.Arg))
	}
	return "[" + strings.Join(p, " ") + "]"
}

func clip(s string, n int) string {
	if len(s) > n {
		return s[:n] + "..."
	}
	return s
}

func (o *observed) result() string {
	if !o.hasRes {
		return "-"
	}
	if o.ok {
		return "returned " + o.v.String()
	}
	if o.errIs {
		return "raised " + fmt.Sprintf("%q", clip(o.errStr, 400))
	}
	return "raised " + o.errV.String()
}

// compareStep says how the observation of one step departs from what the model expects ("" when it does not).
func compareStep(a *Action, e *expect, o *observed) string {
	if !sameEvents(e.events, o.events) {
		return fmt.Sprintf("loader invocations: observed %s, expected %s (then %s)", fmtEvents(o.events), fmtEvents(e.events), o.result())
	}
	if e.hasRes {
		if !o.hasRes {
			return "harness: no result observed"
		}
		if e.err == nil {
			if !o.ok {
				return fmt.Sprintf("require(%q) %s, expected it to return %s", a.Mod, o.result(), e.v)
			}
			if o.v != e.v {
				return fmt.Sprintf("require(%q) returned %s, expected %s", a.Mod, o.v, e.v)
			}
		} else {
			if o.ok {
				return fmt.Sprintf("require(%q) returned %s, expected an error (%s)", a.Mod, o.v, e.err)
			}
			switch e.err.kind {
			case "loop":
				if !o.errIs || !strings.Contains(o.errStr, "loop") || !strings.Contains(o.errStr, e.err.mod) {
					return fmt.Sprintf("require(%q) %s, expected a loop error naming %q", a.Mod, o.result(), e.err.mod)
				}
			case "notfound":
				if !o.errIs {
					return fmt.Sprintf("require(%q) %s, expected a not-found message", a.Mod, o.result())
				}
				if !strings.Contains(o.errStr, e.err.mod) || !strings.Contains(o.errStr, "preload") {
					return fmt.Sprintf("require(%q): not-found message %q does not name the module and the preload entry", a.Mod, clip(o.errStr, 400))
				}
				for _, f := range e.err.tried {
					if rf := strings.ReplaceAll(f, "$S", root()); !strings.Contains(o.errStr, rf) {
						return fmt.Sprintf("require(%q): not-found message %q does not list the tried file %q", a.Mod, clip(o.errStr, 600), rf)
					}
				}
			case "raised":
				if !o.errIs || !strings.Contains(o.errStr, "boom:"+e.err.lid) {
					return fmt.Sprintf("require(%q) %s, expected the error raised by loader %s", a.Mod, o.result(), e.err.lid)
				}
			case "raised_table":
				if o.errIs || o.errV != (val{'T', e.err.tag}) {
					return fmt.Sprintf("require(%q) %s, expected the table error value %s", a.Mod, o.result(), e.err.tag)
				}
			case "syntax":
				if !o.errIs {
					return fmt.Sprintf("require(%q) %s, expected a load error message", a.Mod, o.result())
				}
			}
		}
	}
	if a.Op == "register" {
		// the table RegisterModule returned is what require gives
		if e.err == nil && o.regRet != e.v {
			return fmt.Sprintf("RegisterModule(%q) returned %s, but require gives %s", a.Mod, o.regRet, e.v)
		}
		if e.regFresh {
			if o.regGlobal != e.v {
				return fmt.Sprintf("RegisterModule(%q): global %s is %s, expected the module table %s", a.Mod, a.Mod, o.regGlobal, e.v)
			}
			if o.regFn != "ok" {
				return fmt.Sprintf("RegisterModule(%q): %s", a.Mod, o.regFn)
			}
		}
	}
	if a.Op == "std_probe" && e.err == nil {
		if o.regGlobal != e.v {
			return fmt.Sprintf("library %q: global is %s but require gives %s", a.Mod, o.regGlobal, o.v)
		}
	}
	for i, n := range Names {
		if o.loaded[i] != e.loaded[i] {
			return fmt.Sprintf("after the step package.loaded[%q] is %s, expected %s", n, o.loaded[i], e.loaded[i])
		}
		if o.preload[i] != e.preload[i] {
			return fmt.Sprintf("after the step package.preload[%q] present=%v, expected %v", n, o.preload[i], e.preload[i])
		}
		if o.globals[i] != e.globals[i] {
			return fmt.Sprintf("after the step global %s is a table=%v, expected %v", n, o.globals[i], e.globals[i])
		}
	}
	return ""
}

// ---------------------------------------------------------------------------------------------
// the oracle

func validate(c *Case) error {
	ids := map[string]bool{}
	for i := range c.Steps {
		a := &c.Steps[i]
		switch a.Op {
		case "preload_lua", "preload_go", "file_write":
			if a.Ld == nil {
				return fmt.Errorf("bad case: step %d has no loader", i)
			}
			if ids[a.Ld.ID] {
				return fmt.Errorf("bad case: loader id %q used twice", a.Ld.ID)
			}
			ids[a.Ld.ID] = true
			if a.Op == "preload_go" {
				for _, s := range a.Ld.Steps {
					if s.Op == "module" {
						return fmt.Errorf("bad case: module() in a Go loader")
					}
				}
			}
		}
		if a.Op == "file_write" || a.Op == "file_remove" {
			if a.File == "" || strings.Contains(a.File, "..") || strings.HasPrefix(a.File, "/") {
				return fmt.Errorf("bad case: file name %q", a.File)
			}
		}
	}
	return nil
}

func runModel(c *Case, p policy) ([]expect, *model) {
	m := newModel(c, p)
	exps := make([]expect, 0, len(c.Steps))
	for i := range c.Steps {
		exps = append(exps, m.step(&c.Steps[i], i))
		if m.unbounded {
			break
		}
	}
	return exps, m
}

func oracle(k *vf.C, c *Case) error {
	if err := validate(c); err != nil {
		return err
	}
	exps, m := runModel(c, policy{})
	if m.unbounded {
		k.Discard("unbounded or explosive recursion: loaders drop their own in-progress mark and require each other")
		return nil
	}
	rc, err := newRun(c)
	if err != nil {
		return err
	}
	defer rc.L.Close()
	if err := rc.doLua(fmt.Sprintf("package.path = %q", realPath(c.Path))); err != nil {
		return fmt.Errorf("harness: cannot set package.path: %v", err)
	}
	obs := make([]observed, 0, len(c.Steps))
	for i := range c.Steps {
		o, err := rc.step(&c.Steps[i], i)
		if err != nil {
			return fmt.Errorf("step %d (%s %s): %v", i, c.Steps[i].Op, c.Steps[i].Mod, err)
		}
		obs = append(obs, o)
	}
	firstDiff := func(exps []expect) (int, string) {
		for i := range c.Steps {
			if i >= len(exps) {
				return i, "model stopped (unbounded recursion under this reading)"
			}
			if d := compareStep(&c.Steps[i], &exps[i], &obs[i]); d != "" {
				return i, d
			}
		}
		return -1, ""
	}
	i, d := firstDiff(exps)
	if i < 0 {
		classify(k, c, m)
		return nil
	}
	// Two points are not fixed by the property text (see type policy).  A history is accepted when it matches, as a
	// whole, the model under one consistent choice for them; the Lua 5.1 choice is tried first and is the one reported.
	for bits := 1; bits < 8; bits++ {
		p := policy{clearOnFail: bits&1 != 0, assignWins: bits&2 != 0, falseCached: bits&4 != 0}
		exps2, m2 := runModel(c, p)
		if j, _ := firstDiff(exps2); j < 0 {
			if p.clearOnFail {
				k.Class("policy:sentinel_dropped_after_failure")
			}
			if p.assignWins {
				k.Class("policy:value_assigned_by_loader_kept")
			}
			if p.falseCached {
				k.Class("policy:false_counts_as_loaded")
			}
			classify(k, c, m2)
			return nil
		}
	}
	return fmt.Errorf("step %d (%s %s%s): %s", i, c.Steps[i].Op, c.Steps[i].Mod, c.Steps[i].File, d)
}

func classify(k *vf.C, c *Case, m *model) {
	for _, s := range sortedKeys(m.stats) {
		k.ClassN(s, m.stats[s])
	}
	nreq := map[string]int{}
	for i := range c.Steps {
		a := &c.Steps[i]
		switch a.Op {
		case "require":
			nreq[a.Mod]++
			k.Class("via:" + a.Via)
		case "preload_go", "preload_lua", "file_write", "register", "std_probe":
			k.Class("action:" + a.Op)
		}
		if a.Ld != nil && a.Ld.Syntax {
			k.Class("file_with_syntax_error")
		}
	}
	if len(c.Open) > 0 {
		k.Class("open:subset")
	}
	// non-trivial (DESIGN 4/C20): a repeated require after a failure, or a nested require
	nontrivial := m.stats["nested:self"]+m.stats["nested:other"]+m.stats["nested:protected"] > 0
	if m.stats["req:again_after_failure"] > 0 || m.stats["clear_after_failure"] > 0 {
		nontrivial = true
	}
	if m.stats["req:cached"] > 0 {
		k.Class("history_with_cached_require")
	}
	if nontrivial {
		k.Nontrivial(vf.Hash(c.key()))
		k.Sample(c.Kind, 2, c)
	}
}
