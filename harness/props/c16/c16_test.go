// Package c16: text <-> value round trips (string literals, numerals, %q, tostring/tonumber, coercions, dates).
//
// Sub-checks (each a vf.Register'ed oracle over a JSON case):
//
//	strlit    byte strings -> generated literal spellings -> `return <lit>, ...` yields the bytes      (strlit_test.go)
//	strlit_neg decimal escapes > 255 and raw newlines in short strings are load errors                 (strlit_test.go)
//	numeral   numeral spellings (and numeral-ish soup) vs libc strtod/strtoull, through the lexer,
//	          tonumber, arithmetic coercion; everything the strict 5.1 grammar rejects is rejected     (numeral_test.go)
//	tonumber_base  tonumber(s, base) against strtoull on digit strings                                 (numeral_test.go)
//	quote     loadstring("return "..string.format("%q", s))() == s                                     (quote_test.go)
//	tostring  tonumber(tostring(x)) == x, integral |x| < 2^53 prints as -?digits                       (tostr_test.go)
//	date      os.time(os.date("*t", t)) == t, *t == gmtime, os.date directives == libc strftime        (date_test.go)
package c16

import (
	"fmt"
	"math"
	"strconv"
	"testing"

	lua "github.com/yuin/gopher-lua"

	"verif/vf"
)

func TestMain(m *testing.M) { vf.Main(m) }

func TestReplay(t *testing.T) { vf.Replay(t) }

// ---------------------------------------------------------------------------------------------
// the interpreter under test.  One state per process: every chunk the oracles run is free of side effects on
// globals (the helper functions below are locals captured at start-up), so sharing it keeps the oracles pure.

type interp struct {
	L  *lua.LState
	fn map[string]*lua.LFunction
}

const helperSrc = `
local tonumber, tostring, loadstring, format, date, time, max, pcall, type =
      tonumber, tostring, loadstring, string.format, os.date, os.time, math.max, pcall, type
return {
  tonumber  = function(s) return tonumber(s) end,
  tonumber10= function(s) return tonumber(s, 10) end,
  tonumberb = function(s, b) return tonumber(s, b) end,
  tostring  = function(x) return tostring(x) end,
  concat    = function(x) return x .. "" end,
  add0      = function(s) return s + 0 end,
  radd0     = function(s) return 0 + s end,
  sub0      = function(s) return s - 0 end,
  mul1      = function(s) return s * 1 end,
  div1      = function(s) return s / 1 end,
  pow1      = function(s) return s ^ 1 end,
  neg       = function(s) return -s end,
  addss     = function(s) return s + "0" end,
  libarg    = function(s) return max(s) end,
  fmtq      = function(s) return format("%q", s) end,
  qroundtrip= function(s)
                local f, e = loadstring("return " .. format("%q", s))
                if not f then return false, "loadstring: " .. tostring(e) end
                local ok, v = pcall(f)
                if not ok then return false, "run: " .. tostring(v) end
                return true, v
              end,
  datet     = function(t, utc)
                local d = date(utc and "!*t" or "*t", t)
                return d.year, d.month, d.day, d.hour, d.min, d.sec, d.wday, d.yday, d.isdst
              end,
  timeofdate= function(t, utc) return time(date(utc and "!*t" or "*t", t)) end,
  timeof    = function(y, mo, d, h, mi, s) return time{year=y, month=mo, day=d, hour=h, min=mi, sec=s} end,
  datefmt   = function(f, t) return date(f, t) end,
}
`

var theInterp *interp

func in() *interp {
	if theInterp != nil {
		return theInterp
	}
	L := lua.NewState()
	fn, err := L.LoadString(helperSrc)
	if err != nil {
		panic("c16: helper chunk does not load: " + err.Error())
	}
	L.Push(fn)
	if err := L.PCall(0, 1, nil); err != nil {
		panic("c16: helper chunk fails: " + err.Error())
	}
	tb := L.Get(-1).(*lua.LTable)
	L.Pop(1)
	ip := &interp{L: L, fn: map[string]*lua.LFunction{}}
	tb.ForEach(func(k, v lua.LValue) {
		ip.fn[string(k.(lua.LString))] = v.(*lua.LFunction)
	})
	theInterp = ip
	return ip
}

// call runs helper name with args under pcall and returns nret results.  A Go panic escaping the interpreter is
// turned into an error that says so (no C16 operation may panic).
func (ip *interp) call(name string, nret int, args ...lua.LValue) (res []lua.LValue, err error) {
	f := ip.fn[name]
	if f == nil {
		panic("c16: no helper " + name)
	}
	return ip.callFn(f, nret, args...)
}

func (ip *interp) callFn(f *lua.LFunction, nret int, args ...lua.LValue) (res []lua.LValue, err error) {
	L := ip.L
	top := L.GetTop()
	defer func() {
		if r := recover(); r != nil {
			L.SetTop(top)
			err = fmt.Errorf("Go panic escaped the interpreter: %v", r)
		}
	}()
	if e := L.CallByParam(lua.P{Fn: f, NRet: nret, Protect: true}, args...); e != nil {
		L.SetTop(top)
		return nil, luaError{e}
	}
	res = make([]lua.LValue, nret)
	for i := 0; i < nret; i++ {
		res[i] = L.Get(top + 1 + i)
	}
	L.SetTop(top)
	return res, nil
}

// luaError marks an error raised by the Lua code (as opposed to a harness problem or a Go panic).
type luaError struct{ error }

func isLuaError(err error) bool { _, ok := err.(luaError); return ok }

// loadChunk compiles src; loadErr != nil means the interpreter rejected the text.
func (ip *interp) loadChunk(src string) (fn *lua.LFunction, loadErr error, err error) {
	defer func() {
		if r := recover(); r != nil {
			err = fmt.Errorf("Go panic escaped LoadString: %v", r)
		}
	}()
	fn, loadErr = ip.L.LoadString(src)
	return fn, loadErr, nil
}

// ---------------------------------------------------------------------------------------------
// small utilities

func num(v lua.LValue) (float64, bool) {
	n, ok := v.(lua.LNumber)
	return float64(n), ok
}

// sameNum is Lua's == on numbers (so +0 == -0), never true for NaN.
func sameNum(a, b float64) bool { return a == b }

// sameBits: identical value including the sign of zero.
func sameBits(a, b float64) bool { return math.Float64bits(a) == math.Float64bits(b) }

func fnum(x float64) string {
	return fmt.Sprintf("%s (bits %016x)", strconv.FormatFloat(x, 'g', 17, 64), math.Float64bits(x))
}

func show(v lua.LValue) string {
	switch x := v.(type) {
	case lua.LNumber:
		return "number " + fnum(float64(x))
	case lua.LString:
		return "string " + strconv.Quote(string(x))
	case nil:
		return "<none>"
	}
	return v.Type().String() + " " + v.String()
}

// nontrivial records the identity of a non-trivial case, at most nontrivialCap per sub-check and process (the set of
// hashes is shipped to the driver; the thorough tier would otherwise ship tens of millions).
const nontrivialCap = 100000

var nontrivialSeen = map[*vf.C]int{}

func nontrivial(k *vf.C, h uint64) {
	if nontrivialSeen[k] == 0 {
		k.Note("nontrivial_hashes_kept_per_process", nontrivialCap)
	}
	if nontrivialSeen[k] >= nontrivialCap {
		k.Class("nontrivial_beyond_cap_not_hashed")
		return
	}
	nontrivialSeen[k]++
	k.Nontrivial(h)
}

func clip(s string, n int) string {
	if len(s) > n {
		return s[:n] + "..."
	}
	return s
}
