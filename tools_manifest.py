#!/usr/bin/env python3
"""Regenerates /verif/MANIFEST.json from the table below (one place to keep it valid)."""
import json, subprocess
GOENV = "GOFLAGS=-mod=mod GOPROXY=off GOSUMDB=off GOTOOLCHAIN=local CGO_ENABLED=1"
CHECKS = {
 "C13": dict(engine="E6 concurrent", level="exploration", design="DESIGN.md 4/C13",
   text="under the Go race detector: many goroutines run one shared compiled prototype in their own states with drawn Gosched patterns and GOMAXPROCS values while noise goroutines create/close states, compile, match patterns and recurse on auto-growing stacks - traces must equal the sequential trace, the prototype's deep snapshot must be unchanged, no race report; producer/consumer states on channels (plain and select consumers, Go- or Lua-side close) checked for multiset equality, per-sender order, closure reporting and select case attribution; payload refusal for every value kind through send and select",
   note="goroutine schedules are sampled, not enumerated; the race detector turns any executed unsynchronised conflicting access into a report regardless of interleaving; code not executed by the generated workloads is not covered",
   technique="property-based testing of concurrent workloads under the race detector (rapid-drawn workloads, schedule perturbation), invariant and differential oracles"),
 "C17": dict(engine="E1 layouts", level="exploration", design="DESIGN.md 4/C17",
   text="(1) generated programs with line and scope probes under canonical, re-spelled and wild layouts against the reference interpreter: reported lines lie in the innermost executing statement's token span, locals/upvalues are exactly the declared-and-active named variables with current values and setlocal/setupvalue change exactly that variable; (2) a second layout derived by inserting whole blank/comment lines: every reported line number maps by the known shift",
   note="(1) trusts verif/luaref's statement spans and scope model; (2) is metamorphic and needs no reference",
   technique="property-based differential and metamorphic testing (rapid)"),
 "C12": dict(engine="E1 + E4 configuration sweep and models", level="exploration", design="DESIGN.md 4/C12",
   text="generated programs compared across drawn Options vectors against default options; depth/arity-parameterised programs swept across each configured limit with overflow/recover cycles and a post-check in the same state; state-machine histories on both call-frame stacks and the registry (verif hooks) against slice models",
   note="gopher-lua under default options is the baseline of (a); (b) uses programs with known values; (c) trusts the slice models and the documented capacity rule",
   technique="property-based metamorphic testing across configurations, boundary sweeps, and stateful model-based testing (rapid)"),
 "C11": dict(engine="E5 cancellation enumeration", level="fault_enumeration", design="DESIGN.md 4/C11",
   text="37 non-terminating and terminating script templates and generated programs are cancelled at every main-thread dispatch poll and inside every tick() host call of a bounded prefix, with fixed and auto-growing call stacks; after cancel() returns no host call may start, DoString must return an error carrying the context's reason within a bounded number of further polls, never a Go panic; blocked channel receive/send/select must wake; generated programs run with and without a never-done context must behave identically",
   note="trusts that the VM polls the context once per dispatched instruction; cancellation points of one script are enumerated completely within the stated prefix, the set of scripts is fixed plus generated; the blocked-channel verdict uses goroutine-state sampling with a confirming observation",
   technique="fault injection: exhaustive enumeration of cancellation points over script templates and generated programs, counting (not timing) oracle"),
 "C05": dict(engine="E1 fault enumeration", level="fault_enumeration", design="DESIGN.md 4/C05",
   text="(a) every fault(i) site of every generated program x 14 fault kinds (incl. call-stack and registry overflow) is run against the reference interpreter with the same fault, with interpreter-state snapshots around each protected call; (b) a fault is injected at every instruction boundary of generated 'prologue; pcall(pure body); epilogue' programs through a context that fires at exactly the k-th dispatch, and the outcome is checked against the fault-free run (prefix of side effects, monotone in k, identical failure epilogue, equal snapshots, no Go panic)",
   note="(a) trusts verif/luaref; (b) trusts only that the VM polls the context once per dispatched instruction; fault sites are enumerated completely per program, programs are sampled",
   technique="fault injection over generated programs: exhaustive per-program site and instruction enumeration, reference-interpreter and metamorphic oracles"),
 "C09": dict(engine="E4 stateful model", level="exploration", design="DESIGN.md 4/C09, props/c09/NOTES.md",
   text="generated histories of stores, deletions, reads and traversals over keys of every type through Lua operations and the Go table API, against a Go map model with the border predicate and the exactly-once traversal predicate (also with clears and overwrites interleaved with a stepping traversal)",
   note="trusts the map model and the two predicates as written from the manual",
   technique="stateful model-based property testing (rapid state machines)"),
 "C18": dict(engine="E4 stateful model", level="exploration", design="DESIGN.md 4/C18, props/c18/NOTES.md",
   text="generated list histories (insert/remove/concat/maxn/getn/unpack/direct stores, trailing holes, lists up to 1500) against a slice model, and table.sort over element multisets x comparators (valid, inconsistent, failing, non-boolean) against permutation/ordering/argument-origin/termination predicates",
   note="trusts the slice model of the manual's list functions and the sort validity predicates",
   technique="stateful model-based property testing (rapid state machines) + validity predicates for sort"),
 "C20": dict(engine="E4 stateful model", level="exploration", design="DESIGN.md 4/C20, props/c20/NOTES.md",
   text="all histories of length <= 3 (quick) / <= 4 (thorough) over two modules x 14 loader behaviours x 4 sources plus random histories up to 30 steps over up to 5 module names (files, preload from Lua and Go, RegisterModule, cycles, failing loaders) against a model of ll_require/luaL_register written from the 5.1 manual",
   note="trusts the model of require/package.loaded/preload written from the manual; three points the property leaves open are accepted either way and counted",
   technique="bounded-exhaustive and random stateful model-based testing (rapid)"),
 "C02": dict(engine="E1 program differential", level="exploration", design="DESIGN.md 3, 4/C02",
   text="generated call shapes (parameters x vararg x arguments x result context x callee kind) and deep tail calls run on gopher-lua and on the reference interpreter; traces must agree; tail calls deeper than the call stack must finish",
   note="trusts verif/luaref; Unspecified cases are discarded and counted",
   technique="property-based differential testing (rapid) against a reference interpreter"),
 "C03": dict(engine="E1 program differential", level="exploration", design="DESIGN.md 3, 4/C03",
   text="generated closure programs (capture kind x scope-exit kind, register-reusing epilogue, getter/setter pairs) and fenv programs run on gopher-lua and on the reference interpreter; traces must agree",
   note="trusts verif/luaref (captured variables are heap cells); Unspecified cases are discarded and counted",
   technique="property-based differential testing (rapid) against a reference interpreter"),
 "C04": dict(engine="E1 program differential", level="exploration", design="DESIGN.md 3, 4/C04",
   text="generated metatable programs (random event subsets on tables and userdata, logging handlers, every operator and operand-type pair, chains) run on gopher-lua and on the reference interpreter implementing manual 2.8; traces must agree",
   note="trusts verif/luaref's metamethod dispatch written from manual 2.8; Unspecified cases are discarded and counted",
   technique="property-based differential testing (rapid) against a reference interpreter"),
 "C06": dict(engine="E1 program differential", level="exploration", design="DESIGN.md 3, 4/C06",
   text="generated coroutine programs (several plain and wrapped coroutines, nested resumes, yields at depth, generators, errors, status/running probes, random payloads and driver sequences) run on gopher-lua and on the reference interpreter; traces must agree",
   note="trusts verif/luaref's goroutine-backed coroutines and 5.1 status machine; yields across pcall/metamethod/iterator frames are outside the domain",
   technique="property-based differential testing (rapid) against a reference interpreter"),
 "C10": dict(engine="E4 stateful model + differential", level="exploration", design="DESIGN.md 4/C10, props/c10/NOTES.md",
   text="generated stack-operation sequences inside host functions at activation depth 0..4 against a slice model with caller-owned sentinels; the full (nargs, NRet, produced, failing, handler) call-contract matrix for Call/PCall/CallByParam; object-level API calls against the same Lua expression evaluated in the same state plus an independent prediction from manual 2.8",
   note="trusts the slice model of the documented stack API and the reading of manual 2.8 used as the independent anchor",
   technique="stateful model-based and differential property testing (rapid + exhaustive matrices)"),
 "C14": dict(engine="E7 pattern differential", level="exploration", design="DESIGN.md 4/C14, props/c14/NOTES.md",
   text="string.find/match/gmatch/gsub and pm.Find on (pattern, subject, init, replacement, n) tuples - exhaustive over a small alphabet up to a length bound, random beyond, plus malformed patterns - against a line-by-line Go port of the Lua 5.1 lstrlib.c matcher; no Go panic, bounded recursion",
   note="trusts verif/lstrlib, the Go port of the 5.1 reference matcher (validated on the repository's pm.lua and by triage of every disagreement)",
   technique="property-based differential testing (rapid + bounded-exhaustive enumeration + native fuzzing) against a reference matcher"),
 "C07": dict(engine="E2 bytecode verifier", level="exploration", design="DESIGN.md 4/C07",
   text="every prototype compiled from generated programs (all profiles, two layouts), size-adversarial templates on a boundary grid and with random parameters, the repository's scripts and mutations of them is walked by a structural verifier written from the property text",
   note="trusts the verifier's reading of the operand conventions documented in opcode.go; the string-constant side table is read through the verif hook",
   technique="property-based testing (rapid + boundary grid) with a structural validity oracle"),
 "C19": dict(engine="E4 stateful model", level="exploration", design="DESIGN.md 4/C19, props/c19/NOTES.md",
   text="generated and bounded-exhaustive histories of file operations over all open modes and file sizes around the 4096-byte buffer are applied to gopher-lua's io library and to an in-memory byte-sequence/cursor model (itself cross-checked against glibc FILE* through cgo); every result and the bytes on disk must agree",
   note="trusts the in-memory model (ISO C stdio semantics as read from the standard and the Lua manual), cross-checked against glibc; the local filesystem",
   technique="stateful model-based property testing (rapid state machines + bounded-exhaustive short histories)"),
 "C01": dict(engine="E1 program differential", level="exploration", design="DESIGN.md 3, 4/C01",
   text="generated core-language programs (three lexical layouts, size-adversarial shapes) run on gopher-lua and on an independent reference interpreter; traces, chunk results, failure and failing line must agree; one expression rendered with its leaves in 16 storage forms must give the bit-identical value",
   note="trusts verif/luaref (own Lua 5.1 parser and definitional interpreter, written from the manual); cases it marks Unspecified are discarded and counted",
   technique="property-based differential testing (rapid) against a reference interpreter, with shrinking"),
 "C08": dict(engine="E3 loader fuzz", level="exploration", design="DESIGN.md 4/C08",
   text="generated byte strings, mutations and truncations loaded under recover against a totality/determinism oracle",
   note="trusts the Go runtime's recover and the shard deadline for hang detection",
   technique="property-based testing (rapid) + native go fuzzing with a totality/determinism oracle"),
 "C15": dict(engine="E8 library differential", level="exploration", design="DESIGN.md 4/C15, props/c15/NOTES.md",
   text="string functions over all byte values with an exhaustive index window against manual-definition models; string.format against libc snprintf (cgo); math functions against long-double libm with a condition-number-scaled ulp bound; math.random range",
   note="trusts libc/libm (glibc) as the reference for printf and the elementary functions, and cgo",
   technique="property-based differential testing (rapid + exhaustive sub-spaces) against libc/libm and manual-definition models"),
 "C16": dict(engine="E8 round trips", level="exploration", design="DESIGN.md 4/C16, props/c16/NOTES.md",
   text="string-literal and numeral spellings, %q, tostring/tonumber and date round trips over generated byte strings, float64 bit patterns and timestamps; libc strtod/strtoull/strftime/timegm as independent readers",
   note="trusts libc (glibc) strtod/strtoull/strftime/gmtime_r/timegm in the C locale with TZ=UTC, and the check's own strict Lua 5.1 numeral/literal grammar",
   technique="property-based round-trip and differential testing (rapid) against libc"),
}
 # added below
NA_REASON = "check under construction in this session (not yet claimed); see DESIGN.md section 4"
props = [json.loads(l) for l in open('/verif/properties.jsonl')]
hooks = subprocess.run(['git','-C','/repo','log','--format=%h','--','verif_hooks.go'],capture_output=True,text=True).stdout.split()
man = {
 "version": 1,
 "setup_cmd": f"cd /verif/harness && {GOENV} go build -tags verif ./... && for d in props/*/; do {GOENV} go test -c -tags verif -vet=off -o /dev/null ./$d || exit 1; done",
 "hooks": {"guard": "verif", "enable": "go test -tags verif (the harness module replaces github.com/yuin/gopher-lua by /repo)",
           "baseline_off_cmd": "cd /repo && go test -json -vet=off -count=1 -timeout 25m ./...",
           "source_commits": hooks, "add_only": True},
 "engines": [
   {"name": "E1", "path": "/verif/harness/luaref /verif/harness/lgen /verif/harness/e1", "serves_properties": ["C01","C02","C03","C04","C05","C06","C12","C13","C17"], "kind_free_text": "program generator + independent reference interpreter + trace comparator"},
   {"name": "E2", "path": "/verif/harness/bcverify", "serves_properties": ["C07"], "kind_free_text": "structural bytecode verifier"},
 ],
 "checks": [], "not_applicable": [],
 "notes": "All checks: ./check <ID> --tier quick|thorough (python3 stdlib driver); known findings: /verif/known_findings.json; see DESIGN.md.",
}
for p in props:
    pid = p['id']
    c = CHECKS.get(pid)
    if not c:
        man["not_applicable"].append({"property_id": pid, "reason": NA_REASON})
        continue
    man["checks"].append({
      "property_id": pid, "quick_cmd": f"./check {pid} --tier quick", "thorough_cmd": f"./check {pid} --tier thorough",
      "evidence_file": f"/verif/evidence/{pid}.json", "replay_cmd_template": f"./check {pid} --replay {{path}}", "engine": c["engine"],
      "level_claimed": {"category": c["level"], "text": c["text"], "design_ref": c["design"]},
      "level_note": c["note"], "technique": c["technique"]})
json.dump(man, open('/verif/MANIFEST.json','w'), indent=1)
print("claimed:", [c["property_id"] for c in man["checks"]])
