// Package iomodel is the reference model for property C19: a file is a byte sequence, a handle is a cursor over it.
//
// It is written from the Lua 5.1 manual (§5.7) and ISO C 7.19 (fopen modes, 7.19.5.3 read/write alternation, fseek/ftell,
// fscanf input items) and shares no code with gopher-lua.  The model answers, for every operation of a history, what the
// operation must return (Expect) - or that the operation is outside what the property / ISO C define (Unspec), in which
// case the caller stops the history there.  cstdio.go in this package runs the same histories against the C library's
// FILE* so that the model itself can be validated against an independent implementation of ISO C stdio.
package iomodel

import (
	"bytes"
	"encoding/json"
	"fmt"
	"strconv"
	"strings"
)

// ---------------------------------------------------------------------------------------------
// readable byte strings in JSON

// B is a byte string that marshals to a readable, loss-free JSON string: printable ASCII stays, everything else
// (and the backslash) becomes \xNN.
type B []byte

func (b B) MarshalJSON() ([]byte, error) {
	var sb strings.Builder
	for _, c := range []byte(b) {
		if c >= 0x20 && c < 0x7f && c != '\\' {
			sb.WriteByte(c)
		} else {
			fmt.Fprintf(&sb, "\\x%02x", c)
		}
	}
	return json.Marshal(sb.String())
}

func (b *B) UnmarshalJSON(raw []byte) error {
	var s string
	if err := json.Unmarshal(raw, &s); err != nil {
		return err
	}
	out := make([]byte, 0, len(s))
	for i := 0; i < len(s); i++ {
		if s[i] == '\\' && i+3 < len(s) && s[i+1] == 'x' {
			v, err := strconv.ParseUint(s[i+2:i+4], 16, 8)
			if err != nil {
				return fmt.Errorf("bad escape in %q", s)
			}
			out = append(out, byte(v))
			i += 3
			continue
		}
		if s[i] == '\\' {
			return fmt.Errorf("bad escape in %q", s)
		}
		out = append(out, s[i])
	}
	*b = out
	return nil
}

// Seg is a repeated pattern; contents and payloads are lists of segments so that a 9000-byte file stays readable
// in a replay file.
type Seg struct {
	Pat B   `json:"p"`
	Rep int `json:"x,omitempty"` // 0 means 1
}

func (s Seg) Bytes() []byte {
	r := s.Rep
	if r <= 0 {
		r = 1
	}
	return bytes.Repeat(s.Pat, r)
}

func SegBytes(segs []Seg) []byte {
	var out []byte
	for _, s := range segs {
		out = append(out, s.Bytes()...)
	}
	return out
}

// ---------------------------------------------------------------------------------------------
// operations

// WArg is one argument of write: a string (segments) or a number.
type WArg struct {
	S   []Seg    `json:"s,omitempty"`
	Num *float64 `json:"num,omitempty"`
}

// RFmt is one format of read: a byte count, or "*l" "*a" "*n".
type RFmt struct {
	N *int   `json:"n,omitempty"`
	F string `json:"f,omitempty"`
}

func (r RFmt) String() string {
	if r.N != nil {
		return strconv.Itoa(*r.N)
	}
	return r.F
}

// Op is one step of a history.  K is one of
//
//	open     io.open(path[, Mode])           into handle slot H (always the next unused slot)
//	write    h:write(W...)                   read   h:read(R...)
//	seek     h:seek([Wh[, Off]])             flush  h:flush()
//	setvbuf  h:setvbuf(Buf[, Size])          close  h:close()
//	lines    it = h:lines()                  next   it()            (iterator obtained by the last "lines" on H)
//	forlines for l in h:lines() do ... end   collecting at most Max lines (then break)
//	iolines  for l in io.lines(path) do ... end   (new read-only handle, closed by the iterator at end of file)
//
// Via = "io" routes read/write/flush/close/forlines through io.input/io.output and the io.* functions;
// close with Via = "io.close0" is io.output(h); io.close().  open with Via = "io.input" / "io.output" opens the file
// by io.input(path) / io.output(path) (modes "r" / "w") instead of io.open.
type Op struct {
	K      string `json:"k"`
	H      int    `json:"h"`
	Mode   string `json:"mode,omitempty"`
	NoMode bool   `json:"nomode,omitempty"` // io.open(path) without a mode argument
	W      []WArg `json:"w,omitempty"`
	R      []RFmt `json:"r,omitempty"`
	Wh     string `json:"wh,omitempty"`  // "" = argument omitted
	Off    *int64 `json:"off,omitempty"` // nil = argument omitted
	Buf    string `json:"buf,omitempty"`
	Size   *int   `json:"size,omitempty"`
	Max    int    `json:"max,omitempty"`
	Via    string `json:"via,omitempty"`
}

// OpenMode is the fopen mode an open op stands for: io.open(path) means "r"; io.input(path) opens for reading and
// io.output(path) for writing (liolib.c: g_iofile(L, IO_INPUT, "r") / (L, IO_OUTPUT, "w")).
func (o *Op) OpenMode() string {
	switch {
	case o.Via == "io.input":
		return "r"
	case o.Via == "io.output":
		return "w"
	case o.NoMode:
		return "r"
	}
	return o.Mode
}

// NumText is the text Lua 5.1 writes for a number ("%.14g").  Only integral values below 1e14 and short dyadic
// fractions are used by the generators, for which the text is not in doubt.
func NumText(x float64) (string, bool) {
	if x == float64(int64(x)) && x > -1e14 && x < 1e14 {
		return strconv.FormatInt(int64(x), 10), true
	}
	s := strconv.FormatFloat(x, 'g', 14, 64)
	if strings.ContainsAny(s, "eEnNiI") || len(s) > 10 {
		return "", false
	}
	return s, true
}

// WriteBytes is the byte string a write op transfers; ok=false if a number argument has no agreed text.
func (o *Op) WriteBytes() ([]byte, bool) {
	var out []byte
	for _, a := range o.W {
		if a.Num != nil {
			s, ok := NumText(*a.Num)
			if !ok {
				return nil, false
			}
			out = append(out, s...)
		} else {
			out = append(out, SegBytes(a.S)...)
		}
	}
	return out, true
}

// ---------------------------------------------------------------------------------------------
// expected results

type VKind int

const (
	VNil VKind = iota
	VFalse
	VTrue
	VStr
	VNum
	VFunc   // a function (the lines iterator)
	VHandle // a file handle (userdata)
	VOther  // anything else (only produced by the harness side)
)

type Val struct {
	K VKind
	S []byte
	N float64
}

func (v Val) String() string {
	switch v.K {
	case VNil:
		return "nil"
	case VTrue:
		return "true"
	case VFalse:
		return "false"
	case VStr:
		if len(v.S) > 48 {
			return fmt.Sprintf("%q...(%d bytes)", v.S[:48], len(v.S))
		}
		return fmt.Sprintf("%q", v.S)
	case VNum:
		return strconv.FormatFloat(v.N, 'g', -1, 64)
	case VFunc:
		return "function"
	case VHandle:
		return "file"
	}
	return "other"
}

func (v Val) Equal(o Val) bool {
	if v.K != o.K {
		return false
	}
	switch v.K {
	case VStr:
		return bytes.Equal(v.S, o.S)
	case VNum:
		return v.N == o.N
	}
	return true
}

func ValsString(vs []Val) string {
	p := make([]string, len(vs))
	for i, v := range vs {
		p[i] = v.String()
	}
	return "[" + strings.Join(p, ", ") + "]"
}

// Expect is what an operation must produce.
type Expect struct {
	Unspec   string // non-empty: the operation is outside the domain at this point of the history; stop here
	Raise    bool   // the call must raise a Lua error
	Exact    bool   // the results must be exactly Vals (count and values); for forlines/iolines Vals are the lines
	Truthy   bool   // the call must return normally and its first result must be neither nil nor false (success; the 5.1
	//                manual does not say which true value write/flush/close/setvbuf return)
	FirstNil bool   // the call must return normally with nil as first result (failure return "nil, message[, errno]")
	Free     bool   // the call must not change the file or the cursor; what it returns (or raises) is not fixed by the property
	Vals     []Val
	Tags     []string // what happened, for the class histogram
}

func (e *Expect) tag(s string) { e.Tags = append(e.Tags, s) }

// ---------------------------------------------------------------------------------------------
// the model

type LastOp int

const (
	Fresh LastOp = iota
	LRead
	LWrite
	LSeek
	LFlush
	LSetvbuf
)

type Handle struct {
	Failed   bool // open returned nil; the slot holds no handle
	Closed   bool
	R, W     bool
	App      bool
	Pos      int
	PosKnown bool // false for a freshly opened append-mode handle on a non-empty file (ISO C 7.19.3: implementation-defined)
	Last     LastOp
	Prev     LastOp // the data operation before the last positioning/flush (for the transition classes)
	Dirty    bool   // written since the last flush
	HasIter  bool
	Mode     string
	Buf      string // "", "no", "full"
}

type World struct {
	Exists bool
	Data   []byte
	H      []*Handle
}

func NewWorld(exists bool, data []byte) *World {
	return &World{Exists: exists, Data: append([]byte(nil), data...)}
}

func (w *World) OpenCount() int {
	n := 0
	for _, h := range w.H {
		if !h.Failed && !h.Closed {
			n++
		}
	}
	return n
}

func (w *World) AnyDirty() bool {
	for _, h := range w.H {
		if !h.Failed && !h.Closed && h.Dirty {
			return true
		}
	}
	return false
}

// ParseMode splits an fopen mode string: ISO C 7.19.5.3 allows r w a, each optionally followed by "b" and/or "+" in
// either order.
func ParseMode(m string) (base byte, plus bool, ok bool) {
	if len(m) == 0 {
		return 0, false, false
	}
	base = m[0]
	if base != 'r' && base != 'w' && base != 'a' {
		return 0, false, false
	}
	switch m[1:] {
	case "", "b":
		return base, false, true
	case "+", "b+", "+b":
		return base, true, true
	}
	return 0, false, false
}

func isSpaceC(c byte) bool {
	return c == ' ' || c == '\t' || c == '\n' || c == '\v' || c == '\f' || c == '\r'
}

func isDigit(c byte) bool { return c >= '0' && c <= '9' }

type numStatus int

const (
	numOK numStatus = iota
	numEOF
	numFail
	numUnspec
)

// ScanNumber is "*n": fscanf("%lf") of ISO C 7.19.6.2 restricted to the inputs on which every conforming reader agrees:
// white space is skipped; a decimal numeral [+-]digits[.digits][e[+-]digits] followed by end of file or by a character
// that cannot continue a numeral (a delimiter, or a sign) is converted; end of file before any non-blank gives EOF; a first non-blank that cannot
// start a numeral is left unread and the conversion fails.  Everything else (partial numerals such as "1e" or "-",
// hexadecimal, inf/nan, a numeral followed directly by a letter, digit separator or high byte) is Unspec.
func ScanNumber(data []byte, pos int) (val float64, newPos int, st numStatus) {
	p := pos
	for p < len(data) && isSpaceC(data[p]) {
		p++
	}
	if p >= len(data) {
		if p < pos {
			p = pos
		}
		return 0, p, numEOF
	}
	start := p
	if data[p] == '+' || data[p] == '-' {
		p++
	}
	d1 := 0
	for p < len(data) && isDigit(data[p]) {
		p++
		d1++
	}
	d2 := 0
	if p < len(data) && data[p] == '.' {
		q := p + 1
		for q < len(data) && isDigit(data[q]) {
			q++
			d2++
		}
		if d1+d2 == 0 {
			return 0, 0, numUnspec
		}
		p = q
	}
	if d1+d2 == 0 {
		if p == start && isCleanNonNumeral(data[p]) {
			return 0, start, numFail
		}
		return 0, 0, numUnspec
	}
	if p < len(data) && (data[p] == 'e' || data[p] == 'E') {
		q := p + 1
		if q < len(data) && (data[q] == '+' || data[q] == '-') {
			q++
		}
		d3 := 0
		for q < len(data) && isDigit(data[q]) {
			q++
			d3++
		}
		if d3 == 0 {
			return 0, 0, numUnspec
		}
		p = q
	}
	// a sign directly after a complete numeral cannot continue it (signs only start a numeral or an exponent, and an
	// exponent without digits was ruled out above): every reader stops there, as at a delimiter ("2024-01-15", "37+5")
	if p < len(data) && !isNumeralDelimiter(data[p]) && data[p] != '+' && data[p] != '-' {
		return 0, 0, numUnspec
	}
	if p-start > 40 {
		return 0, 0, numUnspec
	}
	v, err := strconv.ParseFloat(string(data[start:p]), 64)
	if err != nil {
		return 0, 0, numUnspec
	}
	return v, p, numOK
}

// NumberAhead reports whether "*n" at pos reads a plain decimal numeral (used by the generators to aim).
func NumberAhead(data []byte, pos int) bool {
	_, _, st := ScanNumber(data, pos)
	return st == numOK
}

// a character after which no reader can go on consuming a numeral
func isNumeralDelimiter(c byte) bool {
	if isSpaceC(c) {
		return true
	}
	return strings.IndexByte(",;:#!()[]{}=/*\"'<>", c) >= 0
}

// a character that no reader can take for the start of a numeral (not a blank, sign, digit, period, letter)
func isCleanNonNumeral(c byte) bool {
	if strings.IndexByte(",;:#!()[]{}=/*\"'<>", c) >= 0 {
		return true
	}
	// control characters other than the six blanks of the "C" locale, DEL and every byte >= 0x80 (NEL 0x85 and NBSP 0xA0
	// included: Lua runs in the "C" locale, where isspace is false for them and strtod's subject sequence cannot begin with them)
	// Still Unspecified (as before this rule was widened): the lead bytes 0xC2, 0xE1, 0xE2, 0xE3 of UTF-8 encoded Unicode
	// blanks - gopher-lua's fmt.Fscanf skips U+00A0, U+0085, U+2003 ... in front of a numeral, which a byte-wise reader
	// would not; observed on the pinned tree, noted in DESIGN.md Appendix D (fifth round) and not yet enforced.
	if c == 0xc2 || c == 0xe1 || c == 0xe2 || c == 0xe3 {
		return false
	}
	return c < 0x20 && !isSpaceC(c) || c >= 0x7f
}

func (w *World) readLine(h *Handle) (Val, bool) {
	if h.Pos >= len(w.Data) {
		return Val{K: VNil}, false
	}
	rest := w.Data[h.Pos:]
	i := bytes.IndexByte(rest, '\n')
	var line []byte
	if i < 0 {
		line = rest
		h.Pos = len(w.Data)
	} else {
		line = rest[:i]
		h.Pos += i + 1
	}
	return Val{K: VStr, S: append([]byte(nil), line...)}, true
}

func (w *World) handle(i int) *Handle {
	if i < 0 || i >= len(w.H) {
		return nil
	}
	return w.H[i]
}

// readGuard: the domain rules shared by every input operation on an open readable handle.
func readGuard(h *Handle) string {
	if h.Last == LWrite {
		return "input directly after output without flush or seek (ISO C 7.19.5.3)"
	}
	if !h.PosKnown {
		return "initial position of an append-mode stream is implementation-defined (ISO C 7.19.3)"
	}
	return ""
}

func (h *Handle) noteData(op LastOp) {
	h.Prev = h.lastData()
	h.Last = op
}

// lastData is the last data transfer (read or write) on the handle, looking through positioning/flush operations.
func (h *Handle) lastData() LastOp {
	if h.Last == LRead || h.Last == LWrite {
		return h.Last
	}
	return h.Prev
}

func (h *Handle) notePositioning(op LastOp) {
	h.Prev = h.lastData()
	h.Last = op
}

func crosses4096(from, to int) bool {
	// the byte range [from,to) contains bytes on both sides of a multiple of 4096
	if to-from < 2 {
		return false
	}
	return from/4096 != (to-1)/4096
}

// Apply advances the model by one operation and says what the operation must produce.  When Unspec is set the world
// is unchanged.
func (w *World) Apply(op *Op) (e Expect) {
	switch op.K {
	case "open":
		return w.applyOpen(op)
	case "iolines":
		if !w.Exists {
			return Expect{Unspec: "io.lines on a missing file"}
		}
		if w.AnyDirty() {
			return Expect{Unspec: "new handle while another handle has unflushed output"}
		}
		tmp := &Handle{R: true, PosKnown: true}
		e.Exact = true
		for {
			v, ok := w.readLine(tmp)
			if !ok {
				break
			}
			e.Vals = append(e.Vals, v)
		}
		e.tag("op:iolines")
		return e
	}
	h := w.handle(op.H)
	if h == nil {
		return Expect{Unspec: "no such handle slot"}
	}
	if h.Failed {
		return Expect{Unspec: "operation on a slot whose open failed"}
	}
	switch op.K {
	case "write":
		data, ok := op.WriteBytes()
		if !ok {
			return Expect{Unspec: "number argument without an agreed text"}
		}
		if h.Closed {
			return Expect{Raise: true, Tags: []string{"closed:write"}}
		}
		if !h.W {
			return Expect{FirstNil: true, Tags: []string{"refused:write_on_readonly"}}
		}
		if h.Last == LRead {
			return Expect{Unspec: "output directly after input without seek or flush (ISO C 7.19.5.3)"}
		}
		if w.OpenCount() > 1 {
			return Expect{Unspec: "output while a second handle is open on the file"}
		}
		pos := h.Pos
		if h.App {
			pos = len(w.Data)
			if h.PosKnown && h.Pos != pos && len(data) > 0 {
				e.tag("append:write_with_cursor_elsewhere")
			}
		} else if !h.PosKnown {
			return Expect{Unspec: "position unknown"}
		}
		e.tag("op:write")
		if len(data) > 0 {
			if pos > len(w.Data) {
				w.Data = append(w.Data, make([]byte, pos-len(w.Data))...)
				e.tag("write:hole_beyond_end")
			}
			if pos < len(w.Data) {
				e.tag("write:overwrite")
			}
			end := pos + len(data)
			if end > len(w.Data) {
				w.Data = append(w.Data, make([]byte, end-len(w.Data))...)
				e.tag("write:extend")
			}
			copy(w.Data[pos:], data)
			if crosses4096(pos, end) {
				e.tag("cross4096:write")
			}
			h.Pos = end
			h.PosKnown = true
			h.Dirty = true
			if h.lastData() == LRead && h.Last == LSeek {
				e.tag("trans:read-seek-write")
			}
			if h.lastData() == LRead && h.Last == LFlush {
				e.tag("trans:read-flush-write")
			}
			if h.Buf == "full" {
				e.tag("write:buffered_full")
			}
		} else {
			e.tag("write:empty")
		}
		if len(op.W) > 1 {
			e.tag("write:multi_arg")
		}
		for _, a := range op.W {
			if a.Num != nil {
				e.tag("write:number_arg")
			}
		}
		h.noteData(LWrite)
		e.Truthy = true
		return e

	case "read":
		if h.Closed {
			return Expect{Raise: true, Tags: []string{"closed:read"}}
		}
		if !h.R {
			return Expect{FirstNil: true, Tags: []string{"refused:read_on_writeonly"}}
		}
		if g := readGuard(h); g != "" {
			return Expect{Unspec: g}
		}
		fm := op.R
		if len(fm) == 0 {
			fm = []RFmt{{F: "*l"}}
			e.tag("fmt:default")
		}
		if len(fm) > 1 {
			e.tag("fmt:multi")
		}
		save := *h
		start := h.Pos
		e.Exact = true
		e.tag("op:read")
	loop:
		for i, f := range fm {
			switch {
			case f.N != nil && *f.N > 0:
				e.tag("fmt:count")
				if h.Pos >= len(w.Data) {
					e.Vals = append(e.Vals, Val{K: VNil})
					e.tag("read:eof_nil")
					break loop
				}
				n := *f.N
				if n > len(w.Data)-h.Pos {
					n = len(w.Data) - h.Pos
					e.tag("read:short_count")
				}
				e.Vals = append(e.Vals, Val{K: VStr, S: append([]byte(nil), w.Data[h.Pos:h.Pos+n]...)})
				h.Pos += n
			case f.N != nil && *f.N == 0:
				e.tag("fmt:zero")
				if h.Pos >= len(w.Data) {
					e.Vals = append(e.Vals, Val{K: VNil})
					e.tag("read:eof_nil")
					break loop
				}
				e.Vals = append(e.Vals, Val{K: VStr, S: []byte{}})
			case f.N != nil:
				*h = save
				return Expect{Unspec: "negative count"}
			case f.F == "*l":
				e.tag("fmt:*l")
				p0 := h.Pos
				v, ok := w.readLine(h)
				e.Vals = append(e.Vals, v)
				if !ok {
					e.tag("read:eof_nil")
					break loop
				}
				if len(v.S) > 0 && v.S[len(v.S)-1] == '\r' {
					e.tag("line:ends_with_CR")
				}
				if len(v.S) > 4096 {
					e.tag("line:longer_than_4096")
				}
				if h.Pos == len(w.Data) && w.Data[len(w.Data)-1] != '\n' {
					e.tag("line:last_without_newline")
				}
				_ = p0
			case f.F == "*a":
				e.tag("fmt:*a")
				if h.Pos >= len(w.Data) {
					e.Vals = append(e.Vals, Val{K: VStr, S: []byte{}})
					e.tag("read:all_at_eof")
				} else {
					e.Vals = append(e.Vals, Val{K: VStr, S: append([]byte(nil), w.Data[h.Pos:]...)})
					h.Pos = len(w.Data)
				}
			case f.F == "*n":
				e.tag("fmt:*n")
				v, np, st := ScanNumber(w.Data, h.Pos)
				switch st {
				case numUnspec:
					*h = save
					return Expect{Unspec: "\"*n\" on text that is not a plain decimal numeral"}
				case numOK:
					if np > h.Pos && bytes.ContainsAny(w.Data[h.Pos:np], "\n\r") {
						e.tag("num:after_newline")
					}
					h.Pos = np
					e.Vals = append(e.Vals, Val{K: VNum, N: v})
					e.tag("num:ok")
				case numEOF:
					h.Pos = np
					e.Vals = append(e.Vals, Val{K: VNil})
					e.tag("num:eof")
					break loop
				case numFail:
					// the failed conversion returns nil; what else comes back with it is not fixed
					if i != 0 {
						*h = save
						return Expect{Unspec: "failing \"*n\" after other formats"}
					}
					h.Pos = np
					e.Exact = false
					e.FirstNil = true
					e.Vals = nil
					e.tag("num:fail")
					break loop
				}
			default:
				*h = save
				return Expect{Unspec: "format " + f.F}
			}
		}
		if crosses4096(start, h.Pos) {
			e.tag("cross4096:read")
		}
		if h.lastData() == LWrite && h.Last == LFlush {
			e.tag("trans:write-flush-read")
		}
		if h.lastData() == LWrite && h.Last == LSeek {
			e.tag("trans:write-seek-read")
		}
		if start > len(w.Data) {
			e.tag("read:beyond_end")
		}
		h.noteData(LRead)
		return e

	case "lines":
		if h.Closed {
			return Expect{Raise: true, Tags: []string{"closed:lines"}}
		}
		if !h.R {
			h.HasIter = false
			return Expect{Free: true, Tags: []string{"refused:lines_on_writeonly"}}
		}
		h.HasIter = true
		return Expect{Exact: true, Vals: []Val{{K: VFunc}}, Tags: []string{"op:lines"}}

	case "next":
		if !h.HasIter {
			return Expect{Unspec: "no iterator"}
		}
		if h.Closed {
			return Expect{Raise: true, Tags: []string{"closed:iterator_call"}}
		}
		if g := readGuard(h); g != "" {
			return Expect{Unspec: g}
		}
		start := h.Pos
		v, ok := w.readLine(h)
		e.Exact = true
		e.Vals = []Val{v}
		e.tag("op:next")
		if !ok {
			e.tag("read:eof_nil")
		} else {
			if len(v.S) > 4096 {
				e.tag("line:longer_than_4096")
			}
			if len(v.S) > 0 && v.S[len(v.S)-1] == '\r' {
				e.tag("line:ends_with_CR")
			}
		}
		if crosses4096(start, h.Pos) {
			e.tag("cross4096:read")
		}
		h.noteData(LRead)
		return e

	case "forlines":
		if h.Closed {
			return Expect{Raise: true, Tags: []string{"closed:lines"}}
		}
		if !h.R {
			return Expect{Unspec: "generic for over lines() of a write-only handle"}
		}
		if op.Max < 1 {
			return Expect{Unspec: "forlines without a limit"}
		}
		if g := readGuard(h); g != "" {
			return Expect{Unspec: g}
		}
		start := h.Pos
		e.Exact = true
		e.tag("op:forlines")
		for len(e.Vals) < op.Max {
			v, ok := w.readLine(h)
			if !ok {
				e.tag("forlines:to_eof")
				break
			}
			if len(v.S) > 4096 {
				e.tag("line:longer_than_4096")
			}
			if len(v.S) > 0 && v.S[len(v.S)-1] == '\r' {
				e.tag("line:ends_with_CR")
			}
			e.Vals = append(e.Vals, v)
		}
		if crosses4096(start, h.Pos) {
			e.tag("cross4096:read")
		}
		h.noteData(LRead)
		return e

	case "seek":
		if h.Closed {
			return Expect{Raise: true, Tags: []string{"closed:seek"}}
		}
		wh := op.Wh
		if wh == "" {
			wh = "cur"
			e.tag("seek:whence_omitted")
		}
		var off int64
		if op.Off != nil {
			off = *op.Off
		}
		var base int64
		switch wh {
		case "set":
		case "cur":
			if !h.PosKnown {
				return Expect{Unspec: "initial position of an append-mode stream is implementation-defined (ISO C 7.19.3)"}
			}
			base = int64(h.Pos)
		case "end":
			base = int64(len(w.Data))
		default:
			return Expect{Unspec: "whence " + wh}
		}
		e.tag("op:seek")
		e.tag("seek:" + wh)
		t := base + off
		if t < 0 {
			e.FirstNil = true
			e.tag("seek:negative_target_refused")
			return e
		}
		if t > 1<<30 {
			return Expect{Unspec: "huge offset"}
		}
		if int(t) > len(w.Data) {
			e.tag("seek:beyond_end")
		}
		if h.Dirty && h.Buf == "full" && h.Last == LWrite {
			e.tag("seek:with_buffered_output_pending")
		}
		h.Pos = int(t)
		h.PosKnown = true
		h.notePositioning(LSeek)
		e.Exact = true
		e.Vals = []Val{{K: VNum, N: float64(t)}}
		return e

	case "flush":
		if h.Closed {
			return Expect{Raise: true, Tags: []string{"closed:flush"}}
		}
		if !h.W {
			return Expect{Free: true, Tags: []string{"refused:flush_on_readonly"}}
		}
		if h.Last == LRead {
			e.tag("flush:after_read")
		}
		h.Dirty = false
		h.notePositioning(LFlush)
		e.Truthy = true
		e.tag("op:flush")
		return e

	case "setvbuf":
		if h.Closed {
			return Expect{Raise: true, Tags: []string{"closed:setvbuf"}}
		}
		if op.Buf != "no" && op.Buf != "full" {
			return Expect{Unspec: "setvbuf mode " + op.Buf + " (README: line buffering unsupported)"}
		}
		if h.Last != Fresh && h.Last != LFlush {
			return Expect{Unspec: "setvbuf neither first operation nor right after a flush (ISO C 7.19.5.6)"}
		}
		if op.Size != nil && *op.Size < 1 {
			return Expect{Unspec: "setvbuf size < 1"}
		}
		if !h.W {
			return Expect{Free: true, Tags: []string{"refused:setvbuf_on_readonly"}}
		}
		h.Buf = op.Buf
		h.Prev = h.lastData()
		h.Last = LSetvbuf
		e.Truthy = true
		e.tag("op:setvbuf")
		e.tag("buf:" + op.Buf)
		if op.Size != nil {
			e.tag("buf:with_size")
		}
		return e

	case "close":
		if h.Closed {
			return Expect{Raise: true, Tags: []string{"closed:close"}}
		}
		if h.Dirty {
			e.tag("close:with_unflushed_output")
		}
		h.Closed = true
		h.Dirty = false
		e.Truthy = true
		e.tag("op:close")
		return e
	}
	return Expect{Unspec: "unknown op " + op.K}
}

func (w *World) applyOpen(op *Op) (e Expect) {
	if op.H != len(w.H) {
		return Expect{Unspec: "open must use the next unused handle slot"}
	}
	if len(w.H) >= 12 {
		return Expect{Unspec: "too many handles"}
	}
	mode := op.OpenMode()
	base, plus, ok := ParseMode(mode)
	if !ok {
		return Expect{Unspec: "mode " + mode}
	}
	if n := w.OpenCount(); n > 0 {
		if w.AnyDirty() {
			return Expect{Unspec: "new handle while another handle has unflushed output"}
		}
		if base == 'w' {
			return Expect{Unspec: "truncating open while another handle is open"}
		}
	}
	h := &Handle{Mode: mode}
	e.tag("mode:" + mode)
	if op.Via != "" {
		e.tag("open:via_" + op.Via)
	}
	if (base == 'r') && !w.Exists {
		h.Failed = true
		w.H = append(w.H, h)
		if op.Via == "io.input" {
			e.Raise = true // the manual: io.input/io.output raise instead of returning an error code
		} else {
			e.FirstNil = true
		}
		e.tag("open:missing_file_refused")
		return e
	}
	switch base {
	case 'r':
		h.R, h.W = true, plus
		h.PosKnown = true
	case 'w':
		h.R, h.W = plus, true
		w.Data = w.Data[:0]
		h.PosKnown = true
		if w.Exists {
			e.tag("open:truncate_existing")
		}
	case 'a':
		h.R, h.W = plus, true
		h.App = true
		h.PosKnown = len(w.Data) == 0
	}
	if !w.Exists {
		e.tag("open:creates")
	}
	w.Exists = true
	for _, o := range w.H {
		if !o.Failed && !o.Closed {
			e.tag("open:second_handle")
			break
		}
	}
	if len(w.H) > 0 && w.OpenCount() == 0 {
		e.tag("open:reopen")
	}
	w.H = append(w.H, h)
	e.Exact = true
	e.Vals = []Val{{K: VHandle}}
	e.tag("op:open")
	return e
}

// Synced reports whether the bytes on disk must equal Data now (no handle holds output the program has not flushed).
func (w *World) Synced() bool { return !w.AnyDirty() }

// Compare checks what an implementation produced against the expectation.
func (e *Expect) Compare(raised bool, raiseMsg string, vals []Val) error {
	switch {
	case e.Raise:
		if !raised {
			return fmt.Errorf("must raise an error, but returned %s", ValsString(vals))
		}
		return nil
	case e.Free:
		return nil
	case raised:
		return fmt.Errorf("raised %q, expected %s", raiseMsg, e.describe())
	case e.Truthy:
		if len(vals) == 0 || vals[0].K == VNil || vals[0].K == VFalse {
			return fmt.Errorf("returned %s, expected a success return (a true value)", ValsString(vals))
		}
		return nil
	case e.FirstNil:
		if len(vals) == 0 || vals[0].K != VNil {
			return fmt.Errorf("returned %s, expected a failure return (nil, message)", ValsString(vals))
		}
		return nil
	case e.Exact:
		if len(vals) != len(e.Vals) {
			return fmt.Errorf("returned %s, expected %s", ValsString(vals), ValsString(e.Vals))
		}
		for i := range vals {
			if !vals[i].Equal(e.Vals[i]) {
				return fmt.Errorf("result %d differs: returned %s, expected %s", i+1, ValsString(vals), ValsString(e.Vals))
			}
		}
		return nil
	}
	return fmt.Errorf("model gave no expectation")
}

func (e *Expect) describe() string {
	switch {
	case e.Free:
		return "anything"
	case e.Truthy:
		return "a success return (a true value)"
	case e.FirstNil:
		return "a failure return (nil, message)"
	}
	return ValsString(e.Vals)
}
