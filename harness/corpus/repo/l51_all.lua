#!../lua

math.randomseed(0)

collectgarbage("setstepmul", 180)
collectgarbage("setpause", 190)


--[=[
  example of a long [comment],
  [[spanning several [lines]]]

]=]

print("current path:\n  " .. string.gsub(package.path, ";", "\n  "))


local msgs = {}
function Message (m)
  print(m)
  msgs[#msgs+1] = string.sub(m, 3, -3)
end


local c = os.clock()

assert(os.setlocale"C")

local T,print,gcinfo,format,write,assert,type =
      T,print,gcinfo,string.format,io.write,assert,type

local function formatmem (m)
  if m < 1024 then return m
  else
    m = m/1024 - m/1024%1
    if m < 1024 then return m.."K"
    else
      m = m/1024 - m/1024%1
      return m.."M"
    end
  end
end

local showmem = function ()
  if not T then
    print(format("    ---- total memory: %s ----\n", formatmem(gcinfo())))
  else
    T.checkmemory()
    local a,b,c = T.totalmem()
    local d,e = gcinfo()
    print(format(
  "\n    ---- total memory: %s (%dK), max use: %s,  blocks: %d\n",
                        formatmem(a),  d,      formatmem(c),           b))
  end
end


--
-- redefine dofile to run files through dump/undump
--
dofile = function (n)
  showmem()
  local f = assert(loadfile(n))
  local b = string.dump(f)
  f = assert(loadstring(b))
  return f()
end

dofile('main.lua')

do
  local u = newproxy(true)
  local newproxy, stderr = newproxy, io.stderr
  getmetatable(u).__gc = function (o)
    stderr:write'.'
    newproxy(o)
  end
end

local f = assert(loadfile('gc.lua'))
f()
dofile('db.lua')
assert(dofile('calls.lua') == deep and deep)
dofile('strings.lua')
dofile('literals.lua')
assert(dofile('attrib.lua') == 27)
assert(dofile('locals.lua') == 5)
dofile('constructs.lua')
dofile('code.lua')
do
  local f = coroutine.wrap(assert(loadfile('big.lua')))
  assert(f() == 'b')
  assert(f() == 'a')
end
dofile('nextvar.lua')
dofile('pm.lua')
dofile('api.lua')
assert(dofile('events.lua') == 12)
dofile('vararg.lua')
dofile('closure.lua')
dofile('errors.lua')
dofile('math.lua')
dofile('sort.lua')
assert(dofile('verybig.lua') == 10); collectgarbage()
dofile('files.lua')

if #msgs > 0 then
  print("\ntests not performed:")
  for i=1,#msgs do
    print(msgs[i])
  end
  print()
end

print("final OK !!!")
print('cleaning all!!!!')

debug.sethook(function (a) assert(type(a) == 'string') end, "cr")

local _G, collectgarbage, showmem, print, format, clock =
      _G, collectgarbage, showmem, print, format, os.clock

local a={}
for n in pairs(_G) do a[n] = 1 end
a.tostring = nil
a.___Glob = nil
for n in pairs(a) do _G[n] = nil end

a = nil
collectgarbage()
collectgarbage()
collectgarbage()
collectgarbage()
collectgarbage()
collectgarbage();showmem()

print(format("\n\ntotal time: %.2f\n", clock()-c))
