
if T==nil then
  (Message or print)('\a\n >>> testC not active: skipping API tests <<<\n\a')
  return
end



function tcheck (t1, t2)
  table.remove(t1, 1)  -- remove code
  assert(table.getn(t1) == table.getn(t2))
  for i=1,table.getn(t1) do assert(t1[i] == t2[i]) end
end

function pack(...) return arg end


print('testing C API')

-- testing allignment
a = T.d2s(12458954321123)
assert(string.len(a) == 8)   -- sizeof(double)
assert(T.s2d(a) == 12458954321123)

a,b,c = T.testC("pushnum 1; pushnum 2; pushnum 3; return 2")
assert(a == 2 and b == 3 and not c)

-- test that all trues are equal
a,b,c = T.testC("pushbool 1; pushbool 2; pushbool 0; return 3")
assert(a == b and a == true and c == false)
a,b,c = T.testC"pushbool 0; pushbool 10; pushnil;\
                      tobool -3; tobool -3; tobool -3; return 3"
assert(a==0 and b==1 and c==0)


a,b,c = T.testC("gettop; return 2", 10, 20, 30, 40)
assert(a == 40 and b == 5 and not c)

t = pack(T.testC("settop 5; gettop; return .", 2, 3))
tcheck(t, {n=4,2,3})

t = pack(T.testC("settop 0; settop 15; return 10", 3, 1, 23))
assert(t.n == 10 and t[1] == nil and t[10] == nil)

t = pack(T.testC("remove -2; gettop; return .", 2, 3, 4))
tcheck(t, {n=2,2,4})

t = pack(T.testC("insert -1; gettop; return .", 2, 3))
tcheck(t, {n=2,2,3})

t = pack(T.testC("insert 3; gettop; return .", 2, 3, 4, 5))
tcheck(t, {n=4,2,5,3,4})

t = pack(T.testC("replace 2; gettop; return .", 2, 3, 4, 5))
tcheck(t, {n=3,5,3,4})

t = pack(T.testC("replace -2; gettop; return .", 2, 3, 4, 5))
tcheck(t, {n=3,2,3,5})

t = pack(T.testC("remove 3; gettop; return .", 2, 3, 4, 5))
tcheck(t, {n=3,2,4,5})

t = pack(T.testC("insert 3; pushvalue 3; remove 3; pushvalue 2; remove 2; \
                  insert 2; pushvalue 1; remove 1; insert 1; \
      insert -2; pushvalue -2; remove -3; gettop; return .",
      2, 3, 4, 5, 10, 40, 90))
tcheck(t, {n=7,2,3,4,5,10,40,90})

t = pack(T.testC("concat 5; gettop; return .", "alo", 2, 3, "joao", 12))
tcheck(t, {n=1,"alo23joao12"})

-- testing MULTRET
t = pack(T.testC("rawcall 2,-1; gettop; return .",
     function (a,b) return 1,2,3,4,a,b end, "alo", "joao"))
tcheck(t, {n=6,1,2,3,4,"alo", "joao"})

do  -- test returning more results than fit in the caller stack
  local a = {}
  for i=1,1000 do a[i] = true end; a[999] = 10
  local b = T.testC([[call 1 -1; pop 1; tostring -1; return 1]], unpack, a)
  assert(b == "10")
end


-- testing lessthan
assert(T.testC("lessthan 2 5, return 1", 3, 2, 2, 4, 2, 2))
assert(T.testC("lessthan 5 2, return 1", 4, 2, 2, 3, 2, 2))
assert(not T.testC("lessthan 2 -3, return 1", "4", "2", "2", "3", "2", "2"))
assert(not T.testC("lessthan -3 2, return 1", "3", "2", "2", "4", "2", "2"))

local b = {__lt = function (a,b) return a[1] < b[1] end}
local a1,a3,a4 = setmetatable({1}, b),
                 setmetatable({3}, b),
                 setmetatable({4}, b)
assert(T.testC("lessthan 2 5, return 1", a3, 2, 2, a4, 2, 2))
assert(T.testC("lessthan 5 -6, return 1", a4, 2, 2, a3, 2, 2))
a,b = T.testC("lessthan 5 -6, return 2", a1, 2, 2, a3, 2, 20)
assert(a == 20 and b == false)


-- testing lua_is

function count (x, n)
  n = n or 2
  local prog = [[
    isnumber %d;
    isstring %d;
    isfunction %d;
    iscfunction %d;
    istable %d;
    isuserdata %d;
    isnil %d;
    isnull %d;
    return 8
  ]]
  prog = string.format(prog, n, n, n, n, n, n, n, n)
  local a,b,c,d,e,f,g,h = T.testC(prog, x)
  return a+b+c+d+e+f+g+(100*h)
end

assert(count(3) == 2)
assert(count('alo') == 1)
assert(count('32') == 2)
assert(count({}) == 1)
assert(count(print) == 2)
assert(count(function () end) == 1)
assert(count(nil) == 1)
assert(count(io.stdin) == 1)
assert(count(nil, 15) == 100)

-- testing lua_to...

function to (s, x, n)
  n = n or 2
  return T.testC(string.format("%s %d; return 1", s, n), x)
end

assert(to("tostring", {}) == nil)
assert(to("tostring", "alo") == "alo")
assert(to("tostring", 12) == "12")
assert(to("tostring", 12, 3) == nil)
assert(to("objsize", {}) == 0)
assert(to("objsize", "alo\0\0a") == 6)
assert(to("objsize", T.newuserdata(0)) == 0)
assert(to("objsize", T.newuserdata(101)) == 101)
assert(to("objsize", 12) == 2)
assert(to("objsize", 12, 3) == 0)
assert(to("tonumber", {}) == 0)
assert(to("tonumber", "12") == 12)
assert(to("tonumber", "s2") == 0)
assert(to("tonumber", 1, 20) == 0)
a = to("tocfunction", math.deg)
assert(a(3) == math.deg(3) and a ~= math.deg)


-- testing errors

a = T.testC([[
  loadstring 2; call 0,1;
  pushvalue 3; insert -2; call 1, 1;
  call 0, 0;
  return 1
]], "x=150", function (a) assert(a==nil); return 3 end)

assert(type(a) == 'string' and x == 150)

function check3(p, ...)
  assert(arg.n == 3)
  assert(string.find(arg[3], p))
end
check3(":1:", T.testC("loadstring 2; gettop; return .", "x="))
check3("cannot read", T.testC("loadfile 2; gettop; return .", "."))
check3("cannot open xxxx", T.testC("loadfile 2; gettop; return .", "xxxx"))

-- testing table access

a = {x=0, y=12}
x, y = T.testC("gettable 2; pushvalue 4; gettable 2; return 2",
                a, 3, "y", 4, "x")
assert(x == 0 and y == 12)
T.testC("settable -5", a, 3, 4, "x", 15)
assert(a.x == 15)
a[a] = print
x = T.testC("gettable 2; return 1", a)  -- table and key are the same object!
assert(x == print)
T.testC("settable 2", a, "x")    -- table and key are the same object!
assert(a[a] == "x")

b = setmetatable({p = a}, {})
getmetatable(b).__index = function (t, i) return t.p[i] end
k, x = T.testC("gettable 3, return 2", 4, b, 20, 35, "x")
assert(x == 15 and k == 35)
getmetatable(b).__index = function (t, i) return a[i] end
getmetatable(b).__newindex = function (t, i,v ) a[i] = v end
y = T.testC("insert 2; gettable -5; return 1", 2, 3, 4, "y", b)
assert(y == 12)
k = T.testC("settable -5, return 1", b, 3, 4, "x", 16)
assert(a.x == 16 and k == 4)
a[b] = 'xuxu'
y = T.testC("gettable 2, return 1", b)
assert(y == 'xuxu')
T.testC("settable 2", b, 19)
assert(a[b] == 19)

-- testing next
a = {}
t = pack(T.testC("next; gettop; return .", a, nil))
tcheck(t, {n=1,a})
a = {a=3}
t = pack(T.testC("next; gettop; return .", a, nil))
tcheck(t, {n=3,a,'a',3})
t = pack(T.testC("next; pop 1; next; gettop; return .", a, nil))
tcheck(t, {n=1,a})



-- testing upvalues

do
  local A = T.testC[[ pushnum 10; pushnum 20; pushcclosure 2; return 1]]
  t, b, c = A([[pushvalue U0; pushvalue U1; pushvalue U2; return 3]])
  assert(b == 10 and c == 20 and type(t) == 'table')
  a, b = A([[tostring U3; tonumber U4; return 2]])
  assert(a == nil and b == 0)
  A([[pushnum 100; pushnum 200; replace U2; replace U1]])
  b, c = A([[pushvalue U1; pushvalue U2; return 2]])
  assert(b == 100 and c == 200)
  A([[replace U2; replace U1]], {x=1}, {x=2})
  b, c = A([[pushvalue U1; pushvalue U2; return 2]])
  assert(b.x == 1 and c.x == 2)
  T.checkmemory()
end

local f = T.testC[[ pushnum 10; pushnum 20; pushcclosure 2; return 1]]
assert(T.upvalue(f, 1) == 10 and
       T.upvalue(f, 2) == 20 and
       T.upvalue(f, 3) == nil)
T.upvalue(f, 2, "xuxu")
assert(T.upvalue(f, 2) == "xuxu")


-- testing environments

assert(T.testC"pushvalue G; return 1" == _G)
assert(T.testC"pushvalue E; return 1" == _G)
local a = {}
T.testC("replace E; return 1", a)
assert(T.testC"pushvalue G; return 1" == _G)
assert(T.testC"pushvalue E; return 1" == a)
assert(debug.getfenv(T.testC) == a)
assert(debug.getfenv(T.upvalue) == _G)
-- userdata inherit environment
local u = T.testC"newuserdata 0; return 1"
assert(debug.getfenv(u) == a)
-- functions inherit environment
u = T.testC"pushcclosure 0; return 1"
assert(debug.getfenv(u) == a)
debug.setfenv(T.testC, _G)
assert(T.testC"pushvalue E; return 1" == _G)

local b = newproxy()
assert(debug.getfenv(b) == _G)
assert(debug.setfenv(b, a))
assert(debug.getfenv(b) == a)



-- testing locks (refs)

-- reuse of references
local i = T.ref{}
T.unref(i)
assert(T.ref{} == i)

Arr = {}
Lim = 100
for i=1,Lim do   -- lock many objects
  Arr[i] = T.ref({})
end

assert(T.ref(nil) == -1 and T.getref(-1) == nil)
T.unref(-1); T.unref(-1)

for i=1,Lim do   -- unlock all them
  T.unref(Arr[i])
end

function printlocks ()
  local n = T.testC("gettable R; return 1", "n")
  print("n", n)
  for i=0,n do
    print(i, T.testC("gettable R; return 1", i))
  end
end


for i=1,Lim do   -- lock many objects
  Arr[i] = T.ref({})
end

for i=1,Lim,2 do   -- unlock half of them
  T.unref(Arr[i])
end

assert(type(T.getref(Arr[2])) == 'table')


assert(T.getref(-1) == nil)


a = T.ref({})

collectgarbage()

assert(type(T.getref(a)) == 'table')


-- colect in cl the `val' of all collected userdata
tt = {}
cl = {n=0}
A = nil; B = nil
local F
F = function (x)
  local udval = T.udataval(x)
  table.insert(cl, udval)
  local d = T.newuserdata(100)   -- cria lixo
  d = nil
  assert(debug.getmetatable(x).__gc == F)
  loadstring("table.insert({}, {})")()   -- cria mais lixo
  collectgarbage()   -- forca coleta de lixo durante coleta!
  assert(debug.getmetatable(x).__gc == F)   -- coleta anterior nao melou isso?
  local dummy = {}    -- cria lixo durante coleta
  if A ~= nil then
    assert(type(A) == "userdata")
    assert(T.udataval(A) == B)
    debug.getmetatable(A)    -- just acess it
  end
  A = x   -- ressucita userdata
  B = udval
  return 1,2,3
end
tt.__gc = F

-- test whether udate collection frees memory in the right time
do
  collectgarbage();
  collectgarbage();
  local x = collectgarbage("count");
  local a = T.newuserdata(5001)
  assert(T.testC("objsize 2; return 1", a) == 5001)
  assert(collectgarbage("count") >= x+4) 
  a = nil
  collectgarbage();
  assert(collectgarbage("count") <= x+1)
  -- udata without finalizer
  x = collectgarbage("count")
  collectgarbage("stop")
  for i=1,1000 do newproxy(false) end
  assert(collectgarbage("count") > x+10)
  collectgarbage()
  assert(collectgarbage("count") <= x+1)
  -- udata with finalizer
  x = collectgarbage("count")
  collectgarbage()
  collectgarbage("stop")
  a = newproxy(true)
  getmetatable(a).__gc = function () end
  for i=1,1000 do newproxy(a) end
  assert(collectgarbage("count") >= x+10)
  collectgarbage()  -- this collection only calls TM, without freeing memory
  assert(collectgarbage("count") >= x+10)
  collectgarbage()  -- now frees memory
  assert(collectgarbage("count") <= x+1)
end


collectgarbage("stop")

-- create 3 userdatas with tag `tt'
a = T.newuserdata(0); debug.setmetatable(a, tt); na = T.udataval(a)
b = T.newuserdata(0); debug.setmetatable(b, tt); nb = T.udataval(b)
c = T.newuserdata(0); debug.setmetatable(c, tt); nc = T.udataval(c)

-- create userdata without meta table
x = T.newuserdata(4)
y = T.newuserdata(0)

assert(debug.getmetatable(x) == nil and debug.getmetatable(y) == nil)

d=T.ref(a);
e=T.ref(b);
f=T.ref(c);
t = {T.getref(d), T.getref(e), T.getref(f)}
assert(t[1] == a and t[2] == b and t[3] == c)

t=nil; a=nil; c=nil;
T.unref(e); T.unref(f)

collectgarbage()

-- check that unref objects have been collected
assert(table.getn(cl) == 1 and cl[1] == nc)

x = T.getref(d)
assert(type(x) == 'userdata' and debug.getmetatable(x) == tt)
x =nil
tt.b = b  -- create cycle
tt=nil    -- frees tt for GC
A = nil
b = nil
T.unref(d);
n5 = T.newuserdata(0)
debug.setmetatable(n5, {__gc=F})
n5 = T.udataval(n5)
collectgarbage()
assert(table.getn(cl) == 4)
-- check order of collection
assert(cl[2] == n5 and cl[3] == nb and cl[4] == na)


a, na = {}, {}
for i=30,1,-1 do
  a[i] = T.newuserdata(0)
  debug.setmetatable(a[i], {__gc=F})
  na[i] = T.udataval(a[i])
end
cl = {}
a = nil; collectgarbage()
assert(table.getn(cl) == 30)
for i=1,30 do assert(cl[i] == na[i]) end
na = nil


for i=2,Lim,2 do   -- unlock the other half
  T.unref(Arr[i])
end

x = T.newuserdata(41); debug.setmetatable(x, {__gc=F})
assert(T.testC("objsize 2; return 1", x) == 41)
cl = {}
a = {[x] = 1}
x = T.udataval(x)
collectgarbage()
-- old `x' cannot be collected (`a' still uses it)
assert(table.getn(cl) == 0)
for n in pairs(a) do a[n] = nil end
collectgarbage()
assert(table.getn(cl) == 1 and cl[1] == x)   -- old `x' must be collected

-- testing lua_equal
assert(T.testC("equal 2 4; return 1", print, 1, print, 20))
assert(T.testC("equal 3 2; return 1", 'alo', "alo"))
assert(T.testC("equal 2 3; return 1", nil, nil))
assert(not T.testC("equal 2 3; return 1", {}, {}))
assert(not T.testC("equal 2 3; return 1"))
assert(not T.testC("equal 2 3; return 1", 3))

-- testing lua_equal with fallbacks
do
  local map = {}
  local t = {__eq = function (a,b) return map[a] == map[b] end}
  local function f(x)
    local u = T.newuserdata(0)
    debug.setmetatable(u, t)
    map[u] = x
    return u
  end
  assert(f(10) == f(10))
  assert(f(10) ~= f(11))
  assert(T.testC("equal 2 3; return 1", f(10), f(10)))
  assert(not T.testC("equal 2 3; return 1", f(10), f(20)))
  t.__eq = nil
  assert(f(10) ~= f(10))
end

print'+'



-------------------------------------------------------------------------
do   -- testing errors during GC
  local a = {}
  for i=1,20 do
    a[i] = T.newuserdata(i)   -- creates several udata
  end
  for i=1,20,2 do   -- mark half of them to raise error during GC
    debug.setmetatable(a[i], {__gc = function (x) error("error inside gc") end})
  end
  for i=2,20,2 do   -- mark the other half to count and to create more garbage
    debug.setmetatable(a[i], {__gc = function (x) loadstring("A=A+1")() end})
  end
  _G.A = 0
  a = 0
  while 1 do
  if xpcall(collectgarbage, function (s) a=a+1 end) then
    break   -- stop if no more errors
  end
  end
  assert(a == 10)  -- number of errors
  assert(A == 10)  -- number of normal collections
end
-------------------------------------------------------------------------
-- test for userdata vals
do
  local a = {}; local lim = 30
  for i=0,lim do a[i] = T.pushuserdata(i) end
  for i=0,lim do assert(T.udataval(a[i]) == i) end
  for i=0,lim do assert(T.pushuserdata(i) == a[i]) end
  for i=0,lim do a[a[i]] = i end
  for i=0,lim do a[T.pushuserdata(i)] = i end
  assert(type(tostring(a[1])) == "string")
end


-------------------------------------------------------------------------
-- testing multiple states
T.closestate(T.newstate());
L1 = T.newstate()
assert(L1)
assert(pack(T.doremote(L1, "function f () return 'alo', 3 end; f()")).n == 0)

a, b = T.doremote(L1, "return f()")
assert(a == 'alo' and b == '3')

T.doremote(L1, "_ERRORMESSAGE = nil")
-- error: `sin' is not defined
a, b = T.doremote(L1, "return sin(1)")
assert(a == nil and b == 2)   -- 2 == run-time error

-- error: syntax error
a, b, c = T.doremote(L1, "return a+")
assert(a == nil and b == 3 and type(c) == "string")   -- 3 == syntax error

T.loadlib(L1)
a, b = T.doremote(L1, [[
  a = strlibopen()
  a = packageopen()
  a = baselibopen(); assert(a == _G and require("_G") == a)
  a = iolibopen(); assert(type(a.read) == "function")
  assert(require("io") == a)
  a = tablibopen(); assert(type(a.insert) == "function")
  a = dblibopen(); assert(type(a.getlocal) == "function")
  a = mathlibopen(); assert(type(a.sin) == "function")
  return string.sub('okinama', 1, 2)
]])
assert(a == "ok")

T.closestate(L1);

L1 = T.newstate()
T.loadlib(L1)
T.doremote(L1, "a = {}")
T.testC(L1, [[pushstring a; gettable G; pushstring x; pushnum 1;
             settable -3]])
assert(T.doremote(L1, "return a.x") == "1")

T.closestate(L1)

L1 = nil

print('+')

-------------------------------------------------------------------------
-- testing memory limits
-------------------------------------------------------------------------
collectgarbage()
T.totalmem(T.totalmem()+5000)   -- set low memory limit (+5k)
assert(not pcall(loadstring"local a={}; for i=1,100000 do a[i]=i end"))
T.totalmem(1000000000)          -- restore high limit


local function stack(x) if x>0 then stack(x-1) end end

-- test memory errors; increase memory limit in small steps, so that
-- we get memory errors in different parts of a given task, up to there
-- is enough memory to complete the task without errors
function testamem (s, f)
  collectgarbage()
  stack(10)    -- ensure minimum stack size
  local M = T.totalmem()
  local oldM = M
  local a,b = nil
  while 1 do
    M = M+3   -- increase memory limit in small steps
    T.totalmem(M)
    a, b = pcall(f)
    if a and b then break end       -- stop when no more errors
    collectgarbage()
    if not a and not string.find(b, "memory") then   -- `real' error?
      T.totalmem(1000000000)  -- restore high limit
      error(b, 0)
    end
  end
  T.totalmem(1000000000)  -- restore high limit
  print("\nlimit for " .. s .. ": " .. M-oldM)
  return b
end


-- testing memory errors when creating a new state

b = testamem("state creation", T.newstate)
T.closestate(b);  -- close new state


-- testing threads

function expand (n,s)
  if n==0 then return "" end
  local e = string.rep("=", n)
  return string.format("T.doonnewstack([%s[ %s;\n collectgarbage(); %s]%s])\n",
                              e, s, expand(n-1,s), e)
end

G=0; collectgarbage(); a =collectgarbage("count")
loadstring(expand(20,"G=G+1"))()
assert(G==20); collectgarbage();  -- assert(gcinfo() <= a+1)

testamem("thread creation", function ()
  return T.doonnewstack("x=1") == 0  -- try to create thread
end)


-- testing memory x compiler

testamem("loadstring", function ()
  return loadstring("x=1")  -- try to do a loadstring
end)


local testprog = [[
local function foo () return end
local t = {"x"}
a = "aaa"
for _, v in ipairs(t) do a=a..v end
return true
]]

-- testing memory x dofile
_G.a = nil
local t =os.tmpname()
local f = assert(io.open(t, "w"))
f:write(testprog)
f:close()
testamem("dofile", function ()
  local a = loadfile(t)
  return a and a()
end)
assert(os.remove(t))
assert(_G.a == "aaax")


-- other generic tests

testamem("string creation", function ()
  local a, b = string.gsub("alo alo", "(a)", function (x) return x..'b' end)
  return (a == 'ablo ablo')
end)

testamem("dump/undump", function ()
  local a = loadstring(testprog)
  local b = a and string.dump(a)
  a = b and loadstring(b)
  return a and a()
end)

local t = os.tmpname()
testamem("file creation", function ()
  local f = assert(io.open(t, 'w'))
  assert (not io.open"nomenaoexistente")
  io.close(f);
  return not loadfile'nomenaoexistente'
end)
assert(os.remove(t))

testamem("table creation", function ()
  local a, lim = {}, 10
  for i=1,lim do a[i] = i; a[i..'a'] = {} end
  return (type(a[lim..'a']) == 'table' and a[lim] == lim)
end)

local a = 1
close = nil
testamem("closure creation", function ()
  function close (b,c)
   return function (x) return a+b+c+x end
  end
  return (close(2,3)(4) == 10)
end)

testamem("coroutines", function ()
  local a = coroutine.wrap(function ()
              coroutine.yield(string.rep("a", 10))
              return {}
            end)
  assert(string.len(a()) == 10)
  return a()
end)

print'+'

-- testing some auxlib functions
assert(T.gsub("alo.alo.uhuh.", ".", "//") == "alo//alo//uhuh//")
assert(T.gsub("alo.alo.uhuh.", "alo", "//") == "//.//.uhuh.")
assert(T.gsub("", "alo", "//") == "")
assert(T.gsub("...", ".", "/.") == "/././.")
assert(T.gsub("...", "...", "") == "")


print'OK'

