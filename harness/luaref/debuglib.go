package luaref

// The part of the debug library property C17 speaks about: line information and the variables in scope.

func lineValue(lo, hi int) Value {
	if lo == hi {
		return float64(lo)
	}
	return &ONum{Lo: lo, Hi: hi}
}

func openDebug(in *Interp) {
	D := NewTable()
	in.G.Set("debug", D)
	// frame of a level: 1 = the function that called the debug function
	frameOf := func(in *Interp, level int, fname string) *Frame {
		if level < 1 {
			unspecified("debug level < 1")
		}
		// levels are counted as in 5.1 (and by LState.GetStack): an activation that was replaced by a tail call still
		// counts as a level, without anything to report; a query that lands on such a level is not decided here
		frames := in.th.frames
		idx, l := len(frames)-1, level+1 // frames[len-1] is the debug function itself
		for {
			if idx < 0 {
				return nil
			}
			fr := frames[idx]
			if l == 1 {
				if fr.cl == nil {
					unspecified("debug level names a host function")
				}
				return fr
			}
			l--
			if fr.cl != nil {
				l -= fr.tails
			} else if fr.viaTail {
				unspecified("debug level crosses a host function in tail position")
			}
			if l < 1 {
				unspecified("debug level names an activation that a tail call replaced")
			}
			idx--
		}
	}
	in.reg(D, "getinfo", func(in *Interp, a []Value) []Value {
		t := NewTable()
		switch x := arg(a, 0).(type) {
		case *Closure:
			if x.Fn.Name == "main chunk" {
				unspecified("getinfo of the main chunk")
			}
			t.Set("linedefined", float64(x.Fn.Line))
			t.Set("lastlinedefined", float64(x.Fn.EndLine))
			t.Set("func", x)
		case float64, string:
			level := in.checkInt(a, 0, "getinfo")
			fr := frameOf(in, level, "getinfo")
			if fr == nil {
				return []Value{nil}
			}
			t.Set("currentline", lineValue(fr.lo, fr.hi))
			if fr.cl.Fn.Name != "main chunk" {
				t.Set("linedefined", float64(fr.cl.Fn.Line))
				t.Set("lastlinedefined", float64(fr.cl.Fn.EndLine))
			}
			t.Set("func", fr.cl)
		default:
			unspecified("getinfo of something that is not a Lua function or a level")
		}
		return []Value{t}
	})
	// getlocal/setlocal number only the named variables (hidden loop-control variables are not modelled); programs reach
	// them through helpers that search by name, so the numbering itself is never observed
	in.reg(D, "getlocal", func(in *Interp, a []Value) []Value {
		level := in.checkInt(a, 0, "getlocal")
		i := in.checkInt(a, 1, "getlocal")
		fr := frameOf(in, level, "getlocal")
		if fr == nil {
			in.argErr(1, "getlocal", "level out of range")
		}
		if i < 1 || i > len(fr.actives) {
			return []Value{nil}
		}
		return []Value{fr.actives[i-1].name, fr.actives[i-1].cell.V}
	})
	in.reg(D, "setlocal", func(in *Interp, a []Value) []Value {
		level := in.checkInt(a, 0, "setlocal")
		i := in.checkInt(a, 1, "setlocal")
		fr := frameOf(in, level, "setlocal")
		if fr == nil {
			in.argErr(1, "setlocal", "level out of range")
		}
		if i < 1 || i > len(fr.actives) {
			return []Value{nil}
		}
		c := fr.actives[i-1].cell
		c.V = arg(a, 2)
		c.Ver++
		return []Value{fr.actives[i-1].name}
	})
	in.reg(D, "getupvalue", func(in *Interp, a []Value) []Value {
		c, ok := arg(a, 0).(*Closure)
		if !ok {
			unspecified("getupvalue of something that is not a Lua function")
		}
		i := in.checkInt(a, 1, "getupvalue")
		if i < 1 || i > len(c.Upvals) {
			return []Value{nil}
		}
		return []Value{c.Fn.Upvals[i-1].Name, c.Upvals[i-1].V}
	})
	in.reg(D, "setupvalue", func(in *Interp, a []Value) []Value {
		c, ok := arg(a, 0).(*Closure)
		if !ok {
			unspecified("setupvalue of something that is not a Lua function")
		}
		i := in.checkInt(a, 1, "setupvalue")
		if i < 1 || i > len(c.Upvals) {
			return []Value{nil}
		}
		c.Upvals[i-1].V = arg(a, 2)
		c.Upvals[i-1].Ver++
		return []Value{c.Fn.Upvals[i-1].Name}
	})
}
