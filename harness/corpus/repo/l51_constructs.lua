print "testing syntax"

-- testing priorities

assert(2^3^2 == 2^(3^2));
assert(2^3*4 == (2^3)*4);
assert(2^-2 == 1/4 and -2^- -2 == - - -4);
assert(not nil and 2 and not(2>3 or 3<2));
assert(-3-1-5 == 0+0-9);
assert(-2^2 == -4 and (-2)^2 == 4 and 2*2-3-1 == 0);
assert(2*1+3/3 == 3 and 1+2 .. 3*1 == "33");
assert(not(2+1 > 3*1) and "a".."b" > "a");

assert(not ((true or false) and nil))
assert(      true or false  and nil)

local a,b = 1,nil;
assert(-(1 or 2) == -1 and (1 and 2)+(-1.25 or -4) == 0.75);
x = ((b or a)+1 == 2 and (10 or a)+1 == 11); assert(x);
x = (((2<3) or 1) == true and (2<3 and 4) == 4); assert(x);

x,y=1,2;
assert((x>y) and x or y == 2);
x,y=2,1;
assert((x>y) and x or y == 2);

assert(1234567890 == tonumber('1234567890') and 1234567890+1 == 1234567891)


-- silly loops
repeat until 1; repeat until true;
while false do end; while nil do end;

do  -- test old bug (first name could not be an `upvalue')
 local a; function f(x) x={a=1}; x={x=1}; x={G=1} end
end

function f (i)
  if type(i) ~= 'number' then return i,'jojo'; end;
  if i > 0 then return i, f(i-1); end;
end

x = {f(3), f(5), f(10);};
assert(x[1] == 3 and x[2] == 5 and x[3] == 10 and x[4] == 9 and x[12] == 1);
assert(x[nil] == nil)
x = {f'alo', f'xixi', nil};
assert(x[1] == 'alo' and x[2] == 'xixi' and x[3] == nil);
x = {f'alo'..'xixi'};
assert(x[1] == 'aloxixi')
x = {f{}}
assert(x[2] == 'jojo' and type(x[1]) == 'table')


local f = function (i)
  if i < 10 then return 'a';
  elseif i < 20 then return 'b';
  elseif i < 30 then return 'c';
  end;
end

assert(f(3) == 'a' and f(12) == 'b' and f(26) == 'c' and f(100) == nil)

for i=1,1000 do break; end;
n=100;
i=3;
t = {};
a=nil
while not a do
  a=0; for i=1,n do for i=i,1,-1 do a=a+1; t[i]=1; end; end;
end
assert(a == n*(n+1)/2 and i==3);
assert(t[1] and t[n] and not t[0] and not t[n+1])

function f(b)
  local x = 1;
  repeat
    local a;
    if b==1 then local b=1; x=10; break
    elseif b==2 then x=20; break;
    elseif b==3 then x=30;
    else local a,b,c,d=math.sin(1); x=x+1;
    end
  until x>=12;
  return x;
end;

assert(f(1) == 10 and f(2) == 20 and f(3) == 30 and f(4)==12)


local f = function (i)
  if i < 10 then return 'a'
  elseif i < 20 then return 'b'
  elseif i < 30 then return 'c'
  else return 8
  end
end

assert(f(3) == 'a' and f(12) == 'b' and f(26) == 'c' and f(100) == 8)

local a, b = nil, 23
x = {f(100)*2+3 or a, a or b+2}
assert(x[1] == 19 and x[2] == 25)
x = {f=2+3 or a, a = b+2}
assert(x.f == 5 and x.a == 25)

a={y=1}
x = {a.y}
assert(x[1] == 1)

function f(i)
  while 1 do
    if i>0 then i=i-1;
    else return; end;
  end;
end;

function g(i)
  while 1 do
    if i>0 then i=i-1
    else return end
  end
end

f(10); g(10);

do
  function f () return 1,2,3; end
  local a, b, c = f();
  assert(a==1 and b==2 and c==3)
  a, b, c = (f());
  assert(a==1 and b==nil and c==nil)
end

local a,b = 3 and f();
assert(a==1 and b==nil)

function g() f(); return; end;
assert(g() == nil)
function g() return nil or f() end
a,b = g()
assert(a==1 and b==nil)

print'+';


f = [[
return function ( a , b , c , d , e )
  local x = a >= b or c or ( d and e ) or nil
  return x
end , { a = 1 , b = 2 >= 1 , } or { 1 };
]]
f = string.gsub(f, "%s+", "\n");   -- force a SETLINE between opcodes
f,a = loadstring(f)();
assert(a.a == 1 and a.b)

function g (a,b,c,d,e)
  if not (a>=b or c or d and e or nil) then return 0; else return 1; end;
end

function h (a,b,c,d,e)
  while (a>=b or c or (d and e) or nil) do return 1; end;
  return 0;
end;

assert(f(2,1) == true and g(2,1) == 1 and h(2,1) == 1)
assert(f(1,2,'a') == 'a' and g(1,2,'a') == 1 and h(1,2,'a') == 1)
assert(f(1,2,'a')
~=          -- force SETLINE before nil
nil, "")
assert(f(1,2,'a') == 'a' and g(1,2,'a') == 1 and h(1,2,'a') == 1)
assert(f(1,2,nil,1,'x') == 'x' and g(1,2,nil,1,'x') == 1 and
                                   h(1,2,nil,1,'x') == 1)
assert(f(1,2,nil,nil,'x') == nil and g(1,2,nil,nil,'x') == 0 and
                                     h(1,2,nil,nil,'x') == 0)
assert(f(1,2,nil,1,nil) == nil and g(1,2,nil,1,nil) == 0 and
                                   h(1,2,nil,1,nil) == 0)

assert(1 and 2<3 == true and 2<3 and 'a'<'b' == true)
x = 2<3 and not 3; assert(x==false)
x = 2<1 or (2>1 and 'a'); assert(x=='a')


do
  local a; if nil then a=1; else a=2; end;    -- this nil comes as PUSHNIL 2
  assert(a==2)
end

function F(a)
  assert(debug.getinfo(1, "n").name == 'F')
  return a,2,3
end

a,b = F(1)~=nil; assert(a == true and b == nil);
a,b = F(nil)==nil; assert(a == true and b == nil)

----------------------------------------------------------------
-- creates all combinations of 
-- [not] ([not] arg op [not] (arg op [not] arg ))
-- and tests each one

function ID(x) return x end

function f(t, i)
  local b = t.n
  local res = math.mod(math.floor(i/c), b)+1
  c = c*b
  return t[res]
end

local arg = {" ( 1 < 2 ) ", " ( 1 >= 2 ) ", " F ( ) ", "  nil "; n=4}

local op = {" and ", " or ", " == ", " ~= "; n=4}

local neg = {" ", " not "; n=2}

local i = 0
repeat
  c = 1
  local s = f(neg, i)..'ID('..f(neg, i)..f(arg, i)..f(op, i)..
            f(neg, i)..'ID('..f(arg, i)..f(op, i)..f(neg, i)..f(arg, i)..'))'
  local s1 = string.gsub(s, 'ID', '')
  K,X,NX,WX1,WX2 = nil
  s = string.format([[
      local a = %s
      local b = not %s
      K = b
      local xxx; 
      if %s then X = a  else X = b end
      if %s then NX = b  else NX = a end
      while %s do WX1 = a; break end
      while %s do WX2 = a; break end
      repeat if (%s) then break end; assert(b)  until not(%s)
  ]], s1, s, s1, s, s1, s, s1, s, s)
  assert(loadstring(s))()
  assert(X and not NX and not WX1 == K and not WX2 == K)
  if math.mod(i,4000) == 0 then print('+') end
  i = i+1
until i==c

print'OK'
