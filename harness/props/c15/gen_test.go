package c15

import (
	"pgregory.net/rapid"
)

// src is the random source of one generated case.
//
// Sizes (string lengths, number of directives, number of arguments) are plain rapid draws, so that rapid can shrink
// them.  Every other choice comes from a splitmix64 stream whose 64-bit seed is drawn from rapid as 64 fair coin flips:
// rapid's integer generators deliberately favour small values (a "uniform" byte is below 32 half of the time, a uint64
// has fewer than 52 significant bits four times out of five, the first elements of SampledFrom are preferred), which
// would starve exactly the classes this property is about (bytes >= 0x80, huge numbers, full mantissas).  The stream is
// a pure function of the drawn seed, so the run stays reproducible from the rapid seed, and a failing case is kept in
// its serialised form anyway.
type src struct {
	t *rapid.T
	s uint64
}

func newSrc(t *rapid.T) *src {
	bitsv := rapid.SliceOfN(rapid.Bool(), 64, 64).Draw(t, "seed_bits")
	var s uint64
	for i, b := range bitsv {
		if b {
			s |= 1 << uint(i)
		}
	}
	return &src{t: t, s: s}
}

func (r *src) u64() uint64 {
	r.s += 0x9e3779b97f4a7c15
	z := r.s
	z = (z ^ (z >> 30)) * 0xbf58476d1ce4e5b9
	z = (z ^ (z >> 27)) * 0x94d049bb133111eb
	return z ^ (z >> 31)
}

// n is uniform in [0, n).
func (r *src) n(n int) int { return int(r.u64() % uint64(n)) }

// between is uniform in [lo, hi].
func (r *src) between(lo, hi int64) int64 {
	span := uint64(hi-lo) + 1
	if span == 0 {
		return int64(r.u64())
	}
	return lo + int64(r.u64()%span)
}

func (r *src) chance(num, den int) bool { return r.n(den) < num }

// frac is a uniform multiple of 2^-53 in [0, 1).
func (r *src) frac() float64 { return float64(r.u64()>>11) / (1 << 53) }

// mant is a uniform mantissa in [0.5, 1).
func (r *src) mant() float64 { return float64(r.u64()>>12|1<<52) / (1 << 53) }

// size is a rapid draw (shrinkable).
func (r *src) size(label string, lo, hi int) int { return rapid.IntRange(lo, hi).Draw(r.t, label) }

func choose[T any](r *src, xs ...T) T { return xs[r.n(len(xs))] }
