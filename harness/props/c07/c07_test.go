// Package c07: every compiled function is well-formed bytecode the VM can run without faulting.
package c07

import (
	"fmt"
	"os"
	"strconv"
	"strings"
	"testing"

	lua "github.com/yuin/gopher-lua"
	"github.com/yuin/gopher-lua/parse"
	"pgregory.net/rapid"

	"verif/bcverify"
	"verif/gl"
	"verif/lgen"
	"verif/vf"
)

func TestMain(m *testing.M)   { vf.Main(m) }
func TestReplay(t *testing.T) { vf.Replay(t) }

type SrcCase struct {
	Src    string `json:"src,omitempty"`
	Origin string `json:"origin"`
	// adversarial templates are stored by name and parameters (the text can be megabytes)
	Template string `json:"template,omitempty"`
	N        int    `json:"n,omitempty"`
	M        int    `json:"m,omitempty"`
}

func (c *SrcCase) text() string {
	if c.Template != "" {
		return templates[c.Template](c.N, c.M)
	}
	return c.Src
}

func compile(src string) (p *lua.FunctionProto, rejected string, panicked string) {
	defer func() {
		if r := recover(); r != nil {
			panicked = fmt.Sprint(r)
		}
	}()
	chunk, err := parse.Parse(strings.NewReader(src), "<string>")
	if err != nil {
		return nil, err.Error(), ""
	}
	proto, err := lua.Compile(chunk, "<string>")
	if err != nil {
		return nil, err.Error(), ""
	}
	return proto, "", ""
}

var chkVerify = vf.Register("bytecode_wellformed", func(k *vf.C, c *SrcCase) error {
	src := c.text()
	p, rej, pan := compile(src)
	if pan != "" {
		return fmt.Errorf("the front-end panicked: %s", pan)
	}
	k.Class("origin:" + c.Origin)
	if p == nil {
		k.Class("rejected")
		if c.Template != "" {
			k.Class("template:" + c.Template + ":rejected")
		}
		_ = rej
		return nil
	}
	k.Class("accepted")
	if c.Template != "" {
		k.Class("template:" + c.Template + ":accepted")
	}
	viol, st := bcverify.Verify(p, lua.VerifStringConstants)
	if len(viol) > 0 {
		return fmt.Errorf("%d structural violation(s), first: %s", len(viol), strings.Join(viol[:min(len(viol), 3)], " | "))
	}
	if st.MaxRegs > 100 {
		k.Class("regs>100")
	}
	if st.MaxConsts > 256 {
		k.Class("consts>256")
	}
	if st.MaxConsts > 512 {
		k.Class("consts>512")
	}
	if st.ExtSetList > 0 {
		k.Class("extended_setlist")
	}
	if st.RKConst > 0 {
		k.Class("string_key_through_register")
	}
	if st.Protos > 3 {
		k.Class("nested_protos>3")
	}
	// non-trivial: at least one jump and one multi-word group, or an adversarial template
	if st.Jumps > 0 && st.MultiWord > 0 || c.Template != "" {
		if c.Template != "" {
			k.Nontrivial(vf.Hash(c.Template, strconv.Itoa(c.N), strconv.Itoa(c.M)))
			k.Sample("template", 3, map[string]any{"template": c.Template, "n": c.N, "m": c.M, "instructions": st.Insts, "max_registers": st.MaxRegs, "constants": st.MaxConsts})
		} else {
			k.Nontrivial(vf.Hash(src))
			k.Sample(c.Origin, 1, map[string]any{"src": clip(src, 1200), "instructions": st.Insts, "jumps": st.Jumps, "multiword": st.MultiWord})
		}
	}
	return nil
})

func min(a, b int) int {
	if a < b {
		return a
	}
	return b
}

func clip(s string, n int) string {
	if len(s) > n {
		return s[:n] + "..."
	}
	return s
}

// ---- generated programs (every profile of the program generator, every layout)

func TestGenerated(t *testing.T) {
	profiles := lgen.AllProfiles()
	vf.Rapid(t, func(rt *rapid.T) {
		p := profiles[rapid.IntRange(0, len(profiles)-1).Draw(rt, "profile")]
		g := lgen.New(rt, p)
		b := g.Program()
		lay := &lgen.Layout{Ch: g}
		if rapid.Bool().Draw(rt, "wild") {
			lay.Wild, lay.Spell, lay.Semis, lay.Parens = true, true, true, true
		}
		chkVerify.Run(rt, &SrcCase{Src: lgen.Print(b, lay), Origin: "generated:" + p.Name})
	})
}

// ---- size-adversarial templates

var templates = map[string]func(n, m int) string{
	// n locals; beyond the limit the front-end must reject, not miscompile
	"locals": func(n, m int) string {
		var b strings.Builder
		for i := 0; i < n; i++ {
			fmt.Fprintf(&b, "local l%d = %d\n", i, i)
		}
		fmt.Fprintf(&b, "return l0 + l%d\n", n-1)
		return b.String()
	},
	// n locals captured by a closure each, left by break/goto
	"locals_captured": func(n, m int) string {
		var b strings.Builder
		b.WriteString("local fs = {}\nfor i = 1, 2 do\n")
		for i := 0; i < n; i++ {
			fmt.Fprintf(&b, "local l%d = i\nfs[#fs+1] = function() return l%d end\n", i, i)
		}
		b.WriteString("if i == 1 then goto cont end\nif i == 2 then break end\n::cont::\nend\nreturn #fs\n")
		return b.String()
	},
	// n distinct numeric and string constants used as RK operands, table keys, globals and method names
	"constants": func(n, m int) string {
		var b strings.Builder
		b.WriteString("local t, s = {}, 0\n")
		for i := 0; i < n; i++ {
			switch i % 6 {
			case 0:
				fmt.Fprintf(&b, "s = s + %d.5\n", 1000+i)
			case 1:
				fmt.Fprintf(&b, "t.k%d = s\n", i)
			case 2:
				fmt.Fprintf(&b, "t[\"q%d\"] = \"v%d\"\n", i, i)
			case 3:
				fmt.Fprintf(&b, "g%d = t.k%d\n", i, i-2)
			case 4:
				fmt.Fprintf(&b, "if s == %d.25 or t.k%d == \"z%d\" then s = s - %d end\n", i, i-3, i, 7000+i)
			default:
				fmt.Fprintf(&b, "if t.m%d then t:m%d(g%d, %d) end\n", i, i, i-2, 9000+i)
			}
		}
		b.WriteString("return s\n")
		return b.String()
	},
	// table constructor with n positional fields, a keyed field every m fields, optional trailing call
	"constructor": func(n, m int) string {
		var b strings.Builder
		// the constructor as the value of a local, or as an operand in a function without any local (m/100 selects)
		use := m / 100
		m = m % 100
		switch use {
		case 0:
			b.WriteString("local function f() return 1, 2, 3 end\nlocal t = {")
		case 1:
			b.WriteString("return #{")
		case 2:
			b.WriteString("return ({")
		case 3:
			b.WriteString("x = x and {")
		default:
			b.WriteString("return 1 == {")
		}
		for i := 1; i <= n; i++ {
			fmt.Fprintf(&b, "%d,", i)
			if m > 1 && i%m == 0 {
				fmt.Fprintf(&b, "h%d=f(),", i)
			}
		}
		if m%2 == 1 {
			b.WriteString("f()")
		}
		switch use {
		case 0:
			b.WriteString("}\nreturn #t\n")
		case 2:
			b.WriteString("})[3]\n")
		default:
			b.WriteString("}\n")
		}
		return b.String()
	},
	// call with n arguments / vararg forwarding
	"call_args": func(n, m int) string {
		var b strings.Builder
		b.WriteString("local function f(...) return select('#', ...) end\nreturn f(")
		for i := 1; i <= n; i++ {
			if i > 1 {
				b.WriteString(",")
			}
			fmt.Fprintf(&b, "%d", i)
		}
		if m%2 == 1 {
			b.WriteString(", f()")
		}
		b.WriteString(")\n")
		return b.String()
	},
	// expression nesting depth n
	"nesting": func(n, m int) string {
		var b strings.Builder
		b.WriteString("local x = 1\nreturn ")
		switch m % 4 {
		case 0:
			b.WriteString(strings.Repeat("(", n) + "x" + strings.Repeat(" + 1)", n))
		case 1:
			b.WriteString(strings.Repeat("{", n) + "x" + strings.Repeat("}", n))
		case 2:
			b.WriteString(strings.Repeat("-(", n) + "x" + strings.Repeat(")", n))
		default:
			b.WriteString(strings.Repeat("(function() return ", n) + "x" + strings.Repeat(" end)()", n))
		}
		b.WriteString("\n")
		return b.String()
	},
	// loop/if/goto bodies of about n instructions (long jumps), statement kind m
	"long_body": func(n, m int) string {
		var b strings.Builder
		body := func() {
			// x is a local: one instruction per statement
			for i := 0; i < n; i++ {
				b.WriteString("x = x + 1\n")
			}
		}
		b.WriteString("local x = 0\n")
		switch m % 6 {
		case 0:
			b.WriteString("for i = 1, 2 do\n")
			body()
			b.WriteString("end\n")
		case 1:
			b.WriteString("while x < 1 do\n")
			body()
			b.WriteString("end\n")
		case 2:
			b.WriteString("if x == 0 then\n")
			body()
			b.WriteString("else x = 2 end\n")
		case 3:
			b.WriteString("repeat\n")
			body()
			b.WriteString("until x > 0\n")
		case 4:
			b.WriteString("for k, v in pairs({1}) do\n")
			body()
			b.WriteString("end\n")
		default:
			b.WriteString("goto skip\n")
			body()
			b.WriteString("::skip::\n")
		}
		b.WriteString("return x\n")
		return b.String()
	},
	// long concatenation / logical chains
	"chains": func(n, m int) string {
		var b strings.Builder
		b.WriteString("local a, b = 'x', nil\nreturn ")
		op := []string{" .. ", " and ", " or ", " + "}[m%4]
		for i := 0; i < n; i++ {
			if i > 0 {
				b.WriteString(op)
			}
			if m%4 == 3 {
				fmt.Fprintf(&b, "%d", i)
			} else {
				b.WriteString("a")
			}
		}
		b.WriteString("\n")
		return b.String()
	},
	// one assignment with n targets (m%3: globals, fields of a local table, upvalues/locals mix) fed by one call, by ... or
	// by n constants (m/3%3)
	"many_targets": func(n, m int) string {
		if n < 1 {
			n = 1
		}
		var ts, vs []string
		for i := 0; i < n; i++ {
			switch m % 3 {
			case 0:
				ts = append(ts, fmt.Sprintf("g%d", i))
			case 1:
				ts = append(ts, fmt.Sprintf("t.f%d", i))
			default:
				ts = append(ts, []string{fmt.Sprintf("g%d", i), fmt.Sprintf("t[%d]", i), "up", "loc"}[i%4])
			}
			vs = append(vs, fmt.Sprint(i))
		}
		src := "f()"
		switch m / 3 % 3 {
		case 1:
			src = "..."
		case 2:
			src = strings.Join(vs, ", ")
		}
		return "local up, t = 0, {}\nlocal function f() return 1, 2, 3 end\nreturn function(...)\nlocal loc\n" + strings.Join(ts, ", ") + " = " + src + "\nreturn up, loc\nend\n"
	},
	// generic for with n loop variables and a body that needs no register above them (m selects the body)
	"genfor_vars": func(n, m int) string {
		if n < 1 {
			n = 1
		}
		var vs []string
		for i := 1; i <= n; i++ {
			vs = append(vs, fmt.Sprintf("v%d", i))
		}
		body := []string{"last = " + vs[n-1], "", "last = v1", "count = count + 1", "if " + vs[n-1] + " then break end", "last = {" + strings.Join(vs, ", ") + "}"}[m%6]
		return "local last, count = nil, 0\nlocal function it(s, c) if c < 2 then return c + 1, " + strings.Join(vs, ", ") + " end end\nfor " + strings.Join(vs, ", ") + " in it, nil, 0 do\n" + body + "\nend\nreturn last, count\n"
	},
	// functions that use no register beyond their n parameters (m selects what they do with them), called in every way
	"bare_functions": func(n, m int) string {
		var ps []string
		for i := 1; i <= n; i++ {
			ps = append(ps, fmt.Sprintf("p%d", i))
		}
		plist := strings.Join(ps, ", ")
		last := "nil"
		if n > 0 {
			last = ps[n-1]
		}
		body := []string{"return " + last, "return " + plist, "", "return", "if " + last + " then return " + last + " end", "return " + last + ", " + last,
			"g = " + last, "return (" + last + ")", "return not " + last, "return -" + last, "return #" + last, "return " + last + " == " + last}[m%12]
		if n == 0 {
			body = []string{"return", "", "return nil"}[m%3]
		}
		// the vararg twin may use the implicit arg table (a hidden local right above the parameters) as its only extra register
		vbody := body
		if m%16 >= 12 {
			vbody = []string{"return arg", last + " = arg return " + last, "return arg == 1", "return arg.n"}[m%4]
			if n == 0 {
				vbody = []string{"return arg", "g = arg", "return arg == 1", "return arg.n"}[m%4]
			}
		}
		var b strings.Builder
		fmt.Fprintf(&b, "local function f(%s) %s end\n", plist, body)
		fmt.Fprintf(&b, "local function v(%s%s...) %s end\n", plist, map[bool]string{true: "", false: ", "}[n == 0], vbody)
		b.WriteString("local function t1(...) return f(...) end\nlocal function t2(a, b) return f(a, b) end\nlocal function t3(a, b, c) local x = a return v(x, b, c, a) end\n")
		b.WriteString("return f(1, 2, 3), t1(1, 2), t2(1, 2), t3(1, 2, 3), {f(1, 2)}, (f(1, 2)), pcall(f, 1, 2), v(1), select('#', v(1, 2, 3))\n")
		return b.String()
	},
	// m%3+1 enclosing levels with n locals each; the innermost function refers to every one of them (n*(m%3+1) upvalues)
	"upvalues": func(n, m int) string {
		var b strings.Builder
		levels := m%3 + 1
		var names []string
		for l := 0; l < levels; l++ {
			for i := 0; i < n; i++ {
				fmt.Fprintf(&b, "local u%d_%d = %d\n", l, i, i)
				names = append(names, fmt.Sprintf("u%d_%d", l, i))
			}
			if l < levels-1 {
				b.WriteString("return (function()\n")
			}
		}
		b.WriteString("local function f()\n return function()\n  return " + strings.Join(names, " + ") + "\n end\nend\nreturn f()()\n")
		for l := 0; l < levels-1; l++ {
			b.WriteString("end)()\n")
		}
		return b.String()
	},
}

type grid struct {
	name string
	ns   []int
	ms   []int
	big  bool
}

var grids = []grid{
	{"locals", []int{1, 2, 50, 100, 150, 190, 195, 196, 197, 198, 199, 200, 201, 202, 250, 300}, []int{0}, false},
	{"locals_captured", []int{1, 10, 59, 60, 61, 90, 98, 99, 100, 120}, []int{0}, false},
	{"constants", []int{10, 250, 255, 256, 257, 258, 300, 511, 512, 513, 514, 600, 1000, 3000}, []int{0}, false},
	{"constructor", []int{0, 1, 49, 50, 51, 99, 100, 101, 150, 500, 25549, 25550, 25551, 25552, 25599, 25600, 25601, 25650, 30000}, []int{0, 1, 2, 7, 50, 51, 100, 101, 200, 207, 300, 301, 400}, true},
	{"call_args", []int{0, 1, 2, 50, 100, 199, 200, 201, 249, 250, 251, 255, 256, 260}, []int{0, 1}, false},
	{"nesting", []int{1, 2, 10, 50, 100, 150, 190, 195, 199, 200, 201, 220}, []int{0, 1, 2, 3}, false},
	{"long_body", []int{1, 10, 1000, 131060, 131066, 131067, 131068, 131069, 131070, 131071, 131072, 131073, 131074, 131075, 131080, 140000, 262150}, []int{0, 1, 2, 3, 4, 5}, true},
	{"chains", []int{1, 2, 50, 100, 199, 200, 201, 255, 256, 300, 1000}, []int{0, 1, 2, 3}, false},
	{"many_targets", []int{1, 2, 3, 100, 198, 199, 200, 201, 202, 254, 255, 256, 257, 508, 509, 510, 511, 512, 513, 600, 767, 768, 769, 1023, 1024, 1025}, []int{0, 1, 2, 3, 4, 5, 6, 7, 8}, false},
	{"genfor_vars", []int{1, 2, 3, 4, 5, 6, 7, 10, 50, 150, 190, 196}, []int{0, 1, 2, 3, 4, 5}, false},
	{"bare_functions", []int{0, 1, 2, 3, 4, 5, 10, 100, 198, 199, 200}, []int{0, 1, 2, 3, 4, 5, 6, 7, 8, 9, 10, 11, 12, 13, 14, 15}, false},
	{"upvalues", []int{1, 30, 59, 60, 61, 84, 85, 86, 100, 127, 128, 129, 150, 190}, []int{0, 1, 2}, false},
}

// TestTemplates runs the whole template grid (quick tier: the big ones at fewer sizes).
func TestTemplates(t *testing.T) {
	si, sn := vf.Shard()
	i := 0
	for _, g := range grids {
		for _, n := range g.ns {
			for _, m := range g.ms {
				i++
				if i%sn != si {
					continue
				}
				chkVerify.Run(t, &SrcCase{Origin: "template:" + g.name, Template: g.name, N: n, M: m})
			}
		}
	}
	chkVerify.SetExhaustive(false)
}

// TestTemplatesRandom draws template parameters around the boundaries.
func TestTemplatesRandom(t *testing.T) {
	vf.Rapid(t, func(rt *rapid.T) {
		g := grids[rapid.IntRange(0, len(grids)-1).Draw(rt, "template")]
		base := g.ns[rapid.IntRange(0, len(g.ns)-1).Draw(rt, "base")]
		if base > 2000 {
			base = g.ns[rapid.IntRange(0, 4).Draw(rt, "smallbase")]
		}
		n := base + rapid.IntRange(-3, 3).Draw(rt, "delta")
		if n < 0 {
			n = 0
		}
		m := rapid.IntRange(0, 60).Draw(rt, "m")
		chkVerify.Run(rt, &SrcCase{Origin: "template:" + g.name, Template: g.name, N: n, M: m})
	})
}

// ---- the repository's scripts and mutations of them

var corpus [][]byte

func loadCorpus() {
	if corpus != nil {
		return
	}
	for _, f := range gl.CorpusFiles("repo") {
		if b, err := os.ReadFile(f); err == nil {
			corpus = append(corpus, b)
		}
	}
}

func TestRepoScripts(t *testing.T) {
	loadCorpus()
	si, sn := vf.Shard()
	for i, b := range corpus {
		if i%sn != si {
			continue
		}
		chkVerify.Run(t, &SrcCase{Src: string(b), Origin: "repo_script"})
	}
}

var mutTokens = []string{" end ", " do ", " then ", " local x = 1 ", " break ", " return ", " goto L ", " ::L:: ", " function() ", " ( ", " ) ", " { ", " } ", " , ",
	" nil ", " ... ", " not ", " and ", " or ", " .. ", " = ", " if true then ", " while false do ", " repeat ", " until x ", " for i=1,2 do ", " else ", " elseif x then "}

func TestRepoMutations(t *testing.T) {
	loadCorpus()
	vf.Rapid(t, func(rt *rapid.T) {
		src := corpus[rapid.IntRange(0, len(corpus)-1).Draw(rt, "file")]
		if len(src) > 2500 {
			off := rapid.IntRange(0, len(src)-2500).Draw(rt, "off")
			for off > 0 && src[off-1] != '\n' {
				off--
			}
			src = src[off : off+2500]
			// cut at a line end
			if j := strings.LastIndexByte(string(src), '\n'); j > 0 {
				src = src[:j]
			}
		}
		out := append([]byte(nil), src...)
		for i, n := 0, rapid.IntRange(0, 3).Draw(rt, "nmut"); i < n && len(out) > 0; i++ {
			pos := rapid.IntRange(0, len(out)-1).Draw(rt, "pos")
			switch rapid.IntRange(0, 3).Draw(rt, "mut") {
			case 0:
				tok := mutTokens[rapid.IntRange(0, len(mutTokens)-1).Draw(rt, "tok")]
				out = append(out[:pos], append([]byte(tok), out[pos:]...)...)
			case 1:
				end := pos + rapid.IntRange(1, 30).Draw(rt, "len")
				if end > len(out) {
					end = len(out)
				}
				out = append(out[:pos], out[end:]...)
			case 2:
				// delete a whole line
				s, e := pos, pos
				for s > 0 && out[s-1] != '\n' {
					s--
				}
				for e < len(out) && out[e] != '\n' {
					e++
				}
				out = append(out[:s], out[e:]...)
			default:
				// duplicate a line
				s, e := pos, pos
				for s > 0 && out[s-1] != '\n' {
					s--
				}
				for e < len(out) && out[e] != '\n' {
					e++
				}
				line := append([]byte("\n"), out[s:e]...)
				out = append(out[:e], append(line, out[e:]...)...)
			}
		}
		chkVerify.Run(rt, &SrcCase{Src: string(out), Origin: "repo_mutation"})
	})
}
