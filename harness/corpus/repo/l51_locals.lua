print('testing local variables plus some extra stuff')

do
  local i = 10
  do local i = 100; assert(i==100) end
  do local i = 1000; assert(i==1000) end
  assert(i == 10)
  if i ~= 10 then
    local i = 20
  else
    local i = 30
    assert(i == 30)
  end
end



f = nil

local f
x = 1

a = nil
loadstring('local a = {}')()
assert(type(a) ~= 'table')

function f (a)
  local _1, _2, _3, _4, _5
  local _6, _7, _8, _9, _10
  local x = 3
  local b = a
  local c,d = a,b
  if (d == b) then
    local x = 'q'
    x = b
    assert(x == 2)
  else
    assert(nil)
  end
  assert(x == 3)
  local f = 10
end

local b=10
local a; repeat local b; a,b=1,2; assert(a+1==b); until a+b==3


assert(x == 1)

f(2)
assert(type(f) == 'function')


-- testing globals ;-)
do
  local f = {}
  local _G = _G
  for i=1,10 do f[i] = function (x) A=A+1; return A, _G.getfenv(x) end end
  A=10; assert(f[1]() == 11)
  for i=1,10 do assert(setfenv(f[i], {A=i}) == f[i]) end
  assert(f[3]() == 4 and A == 11)
  local a,b = f[8](1)
  assert(b.A == 9)
  a,b = f[8](0)
  assert(b.A == 11)   -- `real' global
  local g
  local function f () assert(setfenv(2, {a='10'}) == g) end
  g = function () f(); _G.assert(_G.getfenv(1).a == '10') end
  g(); assert(getfenv(g).a == '10')
end

-- test for global table of loaded chunks
local function foo (s)
  return loadstring(s)
end

assert(getfenv(foo("")) == _G)
local a = {loadstring = loadstring} 
setfenv(foo, a)
assert(getfenv(foo("")) == _G)
setfenv(0, a)  -- change global environment
assert(getfenv(foo("")) == a)
setfenv(0, _G)


-- testing limits for special instructions

local a
local p = 4
for i=2,31 do
  for j=-3,3 do
    assert(loadstring(string.format([[local a=%s;a=a+
                                            %s;
                                      assert(a
                                      ==2^%s)]], j, p-j, i))) ()
    assert(loadstring(string.format([[local a=%s;
                                      a=a-%s;
                                      assert(a==-2^%s)]], -j, p-j, i))) ()
    assert(loadstring(string.format([[local a,b=0,%s;
                                      a=b-%s;
                                      assert(a==-2^%s)]], -j, p-j, i))) ()
  end
  p =2*p
end

print'+'


if rawget(_G, "querytab") then
  -- testing clearing of dead elements from tables
  collectgarbage("stop")   -- stop GC
  local a = {[{}] = 4, [3] = 0, alo = 1, 
             a1234567890123456789012345678901234567890 = 10}

  local t = querytab(a)

  for k,_ in pairs(a) do a[k] = nil end
  collectgarbage()   -- restore GC and collect dead fiels in `a'
  for i=0,t-1 do
    local k = querytab(a, i)
    assert(k == nil or type(k) == 'number' or k == 'alo')
  end
end

print('OK')

return 5,f
