package c16

// Independent models written from the Lua 5.1 reference manual (section 2.1 lexical conventions, 2.2.1 coercion,
// 5.1 tonumber) and from the documented behaviour of the 5.1 reference lexer (llex.c read_string,
// read_long_string, read_numeral) and lobject.c luaO_str2d.  None of this shares code with gopher-lua.

import (
	"fmt"
	"strings"
)

// ---------------------------------------------------------------------------------------------
// string literals

// earlyClose: the literal is complete at byte End of the text, but more text follows.
type earlyClose struct{ End int }

func (e earlyClose) Error() string {
	return fmt.Sprintf("literal ends at %d, before the end of the text", e.End)
}

func isNL(c byte) bool { return c == '\n' || c == '\r' }

func isDig(c byte) bool { return '0' <= c && c <= '9' }

// skipNL consumes one source newline starting at src[i] (src[i] is CR or LF): CR LF and LF CR count as one.
func skipNL(src []byte, i int) int {
	c := src[i]
	i++
	if i < len(src) && isNL(src[i]) && src[i] != c {
		i++
	}
	return i
}

// decodeLiteral decodes one complete Lua 5.1 string literal that must span the whole of src.
// It returns the denoted bytes, or an error when src is not exactly one well-formed literal.
func decodeLiteral(src []byte) ([]byte, error) {
	if len(src) == 0 {
		return nil, fmt.Errorf("empty")
	}
	switch src[0] {
	case '"', '\'':
		return decodeShort(src)
	case '[':
		return decodeLong(src)
	}
	return nil, fmt.Errorf("not a string literal")
}

var namedEscape = map[byte]byte{'a': 7, 'b': 8, 'f': 12, 'n': 10, 'r': 13, 't': 9, 'v': 11, '\\': '\\', '"': '"', '\'': '\''}

func decodeShort(src []byte) ([]byte, error) {
	q := src[0]
	out := []byte{}
	i := 1
	for {
		if i >= len(src) {
			return nil, fmt.Errorf("unfinished string")
		}
		c := src[i]
		switch {
		case c == q:
			if i != len(src)-1 {
				return nil, earlyClose{i + 1}
			}
			return out, nil
		case isNL(c):
			return nil, fmt.Errorf("unfinished string (raw newline)")
		case c == '\\':
			i++
			if i >= len(src) {
				return nil, fmt.Errorf("unfinished string")
			}
			e := src[i]
			switch {
			case isNL(e):
				out = append(out, '\n')
				i = skipNL(src, i)
			case isDig(e):
				v, n := 0, 0
				for n < 3 && i < len(src) && isDig(src[i]) {
					v = v*10 + int(src[i]-'0')
					i++
					n++
				}
				if v > 255 {
					return nil, fmt.Errorf("escape sequence too large")
				}
				out = append(out, byte(v))
			default:
				b, ok := namedEscape[e]
				if !ok {
					return nil, fmt.Errorf("escape \\%c is not defined by the manual", e)
				}
				out = append(out, b)
				i++
			}
		default:
			out = append(out, c)
			i++
		}
	}
}

func decodeLong(src []byte) ([]byte, error) {
	i := 1
	lvl := 0
	for i < len(src) && src[i] == '=' {
		lvl++
		i++
	}
	if i >= len(src) || src[i] != '[' {
		return nil, fmt.Errorf("not a long bracket")
	}
	i++
	closer := "]" + strings.Repeat("=", lvl) + "]"
	if i < len(src) && isNL(src[i]) {
		i = skipNL(src, i)
	}
	out := []byte{}
	for {
		if i >= len(src) {
			return nil, fmt.Errorf("unfinished long string")
		}
		if src[i] == ']' && strings.HasPrefix(string(src[i:]), closer) {
			if i+len(closer) != len(src) {
				return nil, earlyClose{i + len(closer)}
			}
			return out, nil
		}
		if lvl == 0 && src[i] == '[' && i+1 < len(src) && src[i+1] == '[' {
			// the 5.1 reference build (LUA_COMPAT_LSTR=1) rejects this; the generator never produces it
			return nil, fmt.Errorf("nested [[ at level 0")
		}
		if isNL(src[i]) {
			out = append(out, '\n')
			i = skipNL(src, i)
			continue
		}
		out = append(out, src[i])
		i++
	}
}

// ---------------------------------------------------------------------------------------------
// numerals

func isHex(c byte) bool {
	return isDig(c) || 'a' <= c && c <= 'f' || 'A' <= c && c <= 'F'
}

// isCSpace is isspace() of the "C" locale.
func isCSpace(c byte) bool {
	return c == ' ' || c == '\t' || c == '\n' || c == '\v' || c == '\f' || c == '\r'
}

// numeralKind classifies s against the Lua 5.1 numeral grammar (manual 2.1):
//
//	decimal:  digits [ '.' [digits] ] [ (e|E) [+|-] digits ]   |   '.' digits [ (e|E) [+|-] digits ]
//	hex:      0 (x|X) hexdigits
//
// with no sign and no blanks.  It returns "dec", "hex" or "" (not a numeral).
func numeralKind(s string) string {
	n := len(s)
	if n >= 2 && s[0] == '0' && (s[1] == 'x' || s[1] == 'X') {
		if n == 2 {
			return ""
		}
		for i := 2; i < n; i++ {
			if !isHex(s[i]) {
				return ""
			}
		}
		return "hex"
	}
	i := 0
	nd := 0
	for i < n && isDig(s[i]) {
		i++
		nd++
	}
	if i < n && s[i] == '.' {
		i++
		for i < n && isDig(s[i]) {
			i++
			nd++
		}
	}
	if nd == 0 {
		return ""
	}
	if i < n && (s[i] == 'e' || s[i] == 'E') {
		i++
		if i < n && (s[i] == '+' || s[i] == '-') {
			i++
		}
		ne := 0
		for i < n && isDig(s[i]) {
			i++
			ne++
		}
		if ne == 0 {
			return ""
		}
	}
	if i != n {
		return ""
	}
	return "dec"
}

// splitNumeric takes a string as handed to tonumber / arithmetic and splits it into blanks, an optional sign and
// the body, the way strtod-based conversion does: isspace* [+-]? body isspace*.  ok is false when the string is
// empty after trimming.  The body is not validated here.
func splitNumeric(s string) (neg bool, body string, ok bool) {
	i, j := 0, len(s)
	for i < j && isCSpace(s[i]) {
		i++
	}
	for j > i && isCSpace(s[j-1]) {
		j--
	}
	s = s[i:j]
	if s == "" {
		return false, "", false
	}
	if s[0] == '+' || s[0] == '-' {
		neg = s[0] == '-'
		s = s[1:]
	}
	return neg, s, true
}

// numericStringKind: "dec"/"hex" when the whole string is [blanks][sign]numeral[blanks], "" otherwise.
func numericStringKind(s string) (kind string, neg bool, body string) {
	neg, body, ok := splitNumeric(s)
	if !ok {
		return "", false, ""
	}
	return numeralKind(body), neg, body
}

// lexNumeralExtent models the 5.1 lexer's read_numeral: the number of bytes of src (which starts with a digit, or
// with '.' followed by a digit) that are glued into one numeral token.
func lexNumeralExtent(src string) int {
	n := len(src)
	if n == 0 {
		return 0
	}
	if !(isDig(src[0]) || src[0] == '.' && n > 1 && isDig(src[1])) {
		return 0
	}
	i := 0
	for i < n && (isDig(src[i]) || src[i] == '.') {
		i++
	}
	if i < n && (src[i] == 'e' || src[i] == 'E') {
		i++
		if i < n && (src[i] == '+' || src[i] == '-') {
			i++
		}
	}
	for i < n && (isDig(src[i]) || src[i] == '_' || 'a' <= src[i] && src[i] <= 'z' || 'A' <= src[i] && src[i] <= 'Z') {
		i++
	}
	return i
}

// digitVal is the value of c as a digit in bases up to 36, or 99.
func digitVal(c byte) int {
	switch {
	case isDig(c):
		return int(c - '0')
	case 'a' <= c && c <= 'z':
		return int(c-'a') + 10
	case 'A' <= c && c <= 'Z':
		return int(c-'A') + 10
	}
	return 99
}

// basedDigits models tonumber(s, base) for base != 10 on the part the manual and strtoul agree on: optional
// surrounding blanks, for base 16 an optional 0x/0X prefix, then one or more digits of the base and nothing else.
// It returns the digit string ("" when s is not of that shape) and whether s carries a sign (the manual says
// only unsigned integers are accepted while strtoul wraps them: not asserted).
func basedDigits(s string, base int) (digits string, signed bool) {
	i, j := 0, len(s)
	for i < j && isCSpace(s[i]) {
		i++
	}
	for j > i && isCSpace(s[j-1]) {
		j--
	}
	s = s[i:j]
	if s == "" {
		return "", false
	}
	if s[0] == '+' || s[0] == '-' {
		return "", true
	}
	if base == 16 && len(s) > 2 && s[0] == '0' && (s[1] == 'x' || s[1] == 'X') && digitVal(s[2]) < 16 {
		s = s[2:]
	}
	for k := 0; k < len(s); k++ {
		if digitVal(s[k]) >= base {
			return "", false
		}
	}
	return s, false
}
