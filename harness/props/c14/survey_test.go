package c14

import (
	"fmt"
	"os"
	"sort"
	"strconv"
	"testing"

	"pgregory.net/rapid"

	ref "verif/lstrlib"
)

// TestSurvey is a development aid (not in plan.json): it keeps going after a disagreement and prints the distinct
// ones, so that the defects of a tree can be triaged in one pass.  C14_SURVEY=exh|rnd|mal.
func TestSurvey(t *testing.T) {
	mode := os.Getenv("C14_SURVEY")
	if mode == "" {
		t.Skip("no C14_SURVEY")
	}
	seen := map[string]string{}
	count := map[string]int{}
	add := func(c *Case, err error) {
		if err == nil {
			return
		}
		key := string(c.P)
		count[key]++
		if _, ok := seen[key]; !ok {
			seen[key] = err.Error()
		}
	}
	switch mode {
	case "exh":
		maxTok, _ := strconv.Atoi(os.Getenv("C14_SURVEY_TOK"))
		if maxTok == 0 {
			maxTok = 2
		}
		toks := exhTokens()
		subjects := exhSubjects(4)
		var rec func(prefix, last string, depth int)
		rec = func(prefix, last string, depth int) {
			for _, s := range subjects {
				c := &Case{S: B(s), P: B(prefix), Kind: "exhaustive"}
				if err := chkExh.Try(c); err != nil {
					add(c, err)
					break
				}
			}
			if depth == maxTok {
				return
			}
			for _, tk := range toks {
				if last == "(" && tk == ")" {
					continue
				}
				rec(prefix+tk, tk, depth+1)
			}
		}
		rec("", "", 0)
	case "consistency":
		// validator vs reference only: a pattern read as well-formed must never make the reference raise, whatever
		// the subject; a pattern read as malformed must make it raise (or match nothing) on at least the subjects
		// tried -- the second half is informative only
		al := "ab%[]()^$*+-?.12b"
		subj := []string{"", "a", "b", "ab", "ba", "aab", "abab", "a1b2", "((a))", "[a]", "%", "a-b", "ab.ab", "1221", "bb(b)b"}
		n := 0
		rapid.Check(t, func(rt *rapid.T) {
			n++
			k := rapid.IntRange(1, 12).Draw(rt, "n")
			b := make([]byte, k)
			for i := range b {
				b[i] = al[rapid.IntRange(0, len(al)-1).Draw(rt, "c")]
			}
			p := string(b)
			for _, anch := range []bool{true, false} {
				pi := analyse(p, anch)
				if pi.status != stOK {
					continue
				}
				for _, sj := range subj {
					var err error
					if anch {
						_, _, err = ref.StrFindAux(sj, p, 1, false, false, nil)
						if err == nil {
							rp := ref.Repl{Kind: ref.ReplString, Str: "%0"}
							_, _, _, err = ref.Gsub(sj, p, &rp, 0, false, nil)
						}
					} else {
						_, _, err = ref.Gmatch(sj, p, 0, nil)
					}
					if err != nil && err != ref.ErrBudget {
						add(&Case{P: B(p)}, fmt.Errorf("read as well-formed but reference raised %v on %q", err, sj))
					}
				}
			}
		})
	case "rnd", "mal":
		n := 0
		rapid.Check(t, func(rt *rapid.T) {
			n++
			var c *Case
			if mode == "rnd" {
				gp := genPat(rt, true)
				s := genSubject(rt, gp)
				c = &Case{S: B(s), P: B(gp.text), Ops: genOps(rt, len(s), gp.ncaps, false), Kind: "random"}
				add(c, chkRnd.Try(c))
			} else {
				p, s, ncaps, kind := genMalformed(rt)
				c = &Case{S: B(s), P: B(p), Ops: genOps(rt, len(s), ncaps, true), Kind: "mal_" + kind}
				add(c, chkMal.Try(c))
			}
		})
	}
	var ks []string
	for k := range seen {
		ks = append(ks, k)
	}
	sort.Slice(ks, func(i, j int) bool {
		if len(ks[i]) != len(ks[j]) {
			return len(ks[i]) < len(ks[j])
		}
		return ks[i] < ks[j]
	})
	fmt.Printf("SURVEY: %d patterns with a disagreement\n", len(ks))
	max := 80
	for i, k := range ks {
		if i >= max {
			break
		}
		fmt.Printf("  %-14q x%-3d %s\n", k, count[k], clip(seen[k], 260))
	}
}
