#!/bin/bash
# seedall.sh <lanes> <NN:checks>...  : tools_seeded.py add for m1..m3 (and extra_m4) of each /tmp/mutNN-work, in parallel lanes
lanes=$1; shift
mkdir -p /verif/.build/seedlog; rm -f /verif/.build/seedlog/lane*
i=0
for spec in "$@"; do
  p=${spec%%:*}; checks=${spec##*:}
  for m in m1 m2 m3; do
    d=/tmp/mut$p-work/$m
    [ -f $d/patch.diff ] || continue
    echo "$d C$p-$m C$p $checks" >> /verif/.build/seedlog/lane$((i % lanes)); i=$((i+1))
  done
done
for l in $(seq 0 $((lanes-1))); do
  ( while read d id prop checks; do SEEDED_JOBS=6 python3 /verif/tools_seeded.py add $d $id $prop $checks >> /verif/.build/seedlog/out$l.txt 2>&1; done < /verif/.build/seedlog/lane$l; echo LANE-DONE >> /verif/.build/seedlog/out$l.txt ) &
done
wait
