package c12

import (
	"fmt"
	"testing"

	lua "github.com/yuin/gopher-lua"
	"pgregory.net/rapid"

	"verif/vf"
)

// ---------------------------------------------------------------------------------------------
// (c) the two call-frame stacks and the registry against list models (through the verif hooks)

type StackOp struct {
	Op  string `json:"op"`
	Arg int    `json:"arg,omitempty"`
}

type StackCase struct {
	Auto bool      `json:"auto_growing"`
	Size int       `json:"size"`
	Ops  []StackOp `json:"ops"`
}

var chkStack = vf.Register("frame_stack_model", func(k *vf.C, c *StackCase) (err error) {
	defer func() {
		if r := recover(); r != nil {
			err = fmt.Errorf("panic in the call-frame stack: %v", r)
		}
	}()
	var s *lua.VerifFrameStack
	capacity := c.Size
	if c.Auto {
		s = lua.VerifNewAutoStack(c.Size)
		capacity = (c.Size + 7) / 8 * 8 // README: grows to the next segment multiple
	} else {
		s = lua.VerifNewFixedStack(c.Size)
	}
	var model []int
	next := 1000
	crossed := false
	for i, op := range c.Ops {
		where := fmt.Sprintf("op %d %s(%d) on %v", i, op.Op, op.Arg, model)
		switch op.Op {
		case "push":
			if len(model) >= capacity {
				if !s.IsFull() && !c.Auto {
					return fmt.Errorf("%s: IsFull is false at capacity %d", where, capacity)
				}
				continue // pushing on a full stack is the caller's error (the VM checks IsFull / recovers the panic)
			}
			if s.IsFull() {
				return fmt.Errorf("%s: IsFull with %d of %d frames", where, len(model), capacity)
			}
			next++
			s.Push(next)
			model = append(model, next)
			if len(model)%8 == 1 && len(model) > 1 {
				crossed = true
			}
		case "pop":
			if len(model) == 0 && !c.Auto {
				continue // the fixed stack's Pop on empty is outside its contract (the VM never does it)
			}
			tok, idx, ok := s.Pop()
			if len(model) == 0 {
				if ok {
					return fmt.Errorf("%s: Pop on an empty stack returned a frame", where)
				}
				continue
			}
			want := model[len(model)-1]
			model = model[:len(model)-1]
			if !ok || tok != want || idx != len(model) {
				return fmt.Errorf("%s: Pop gave (%d, idx %d, %v), model (%d, idx %d)", where, tok, idx, ok, want, len(model))
			}
		case "setsp":
			if len(model) == 0 {
				continue
			}
			sp := op.Arg % (len(model) + 1)
			s.SetSp(sp)
			model = model[:sp]
		}
		if s.Sp() != len(model) {
			return fmt.Errorf("%s: Sp()=%d, model has %d frames", where, s.Sp(), len(model))
		}
		if s.IsEmpty() != (len(model) == 0) {
			return fmt.Errorf("%s: IsEmpty()=%v with %d frames", where, s.IsEmpty(), len(model))
		}
		if tok, idx, ok := s.Last(); len(model) > 0 {
			if !ok || tok != model[len(model)-1] || idx != len(model)-1 {
				return fmt.Errorf("%s: Last gave (%d, idx %d, %v), model (%d, idx %d)", where, tok, idx, ok, model[len(model)-1], len(model)-1)
			}
		} else if ok {
			return fmt.Errorf("%s: Last on an empty stack returned a frame", where)
		}
		for j, want := range model {
			if tok, idx := s.At(j); tok != want || idx != j {
				return fmt.Errorf("%s: At(%d) gave (%d, idx %d), model %d", where, j, tok, idx, want)
			}
		}
	}
	s.FreeAll()
	if crossed && len(c.Ops) >= 8 {
		k.Nontrivial(vf.Hash(fmt.Sprint(c)))
		k.Sample(fmt.Sprintf("auto=%v", c.Auto), 1, c)
	}
	if c.Auto {
		k.Class("auto_growing")
	} else {
		k.Class("fixed")
	}
	return nil
})

func TestFrameStackModel(t *testing.T) {
	vf.Rapid(t, func(rt *rapid.T) {
		c := &StackCase{Auto: rapid.Bool().Draw(rt, "auto"), Size: rapid.IntRange(1, 40).Draw(rt, "size")}
		n := rapid.IntRange(1, 120).Draw(rt, "nops")
		for i := 0; i < n; i++ {
			switch rapid.IntRange(0, 9).Draw(rt, "op") {
			case 0, 1, 2, 3, 4, 5:
				c.Ops = append(c.Ops, StackOp{Op: "push"})
			case 6, 7:
				c.Ops = append(c.Ops, StackOp{Op: "pop"})
			default:
				c.Ops = append(c.Ops, StackOp{Op: "setsp", Arg: rapid.IntRange(0, 40).Draw(rt, "sp")})
			}
		}
		chkStack.Run(rt, c)
	})
}

type RegOp struct {
	Op string `json:"op"`
	A  int    `json:"a,omitempty"`
	B  int    `json:"b,omitempty"`
	C  int    `json:"c,omitempty"`
	D  int    `json:"d,omitempty"`
}

type RegCase struct {
	Size int     `json:"size"`
	Grow int     `json:"grow_step"`
	Max  int     `json:"max_size"`
	Ops  []RegOp `json:"ops"`
}

func lnum(i int) lua.LValue { return lua.LNumber(i) }

var chkReg = vf.Register("registry_model", func(k *vf.C, c *RegCase) (err error) {
	r := lua.VerifNewRegistry(c.Size, c.Grow, c.Max)
	limit := c.Size
	if c.Max > limit {
		limit = c.Max
	}
	var model []lua.LValue // 0..top-1
	next := 0
	grew, overflowed := false, false
	// step applies one operation to the registry; an overflow is signalled by the hook's panic
	step := func(f func()) (overflow bool, other any) {
		defer func() {
			if rec := recover(); rec != nil {
				if lua.VerifIsOverflow(rec) {
					overflow = true
				} else {
					other = rec
				}
			}
		}()
		f()
		return false, nil
	}
	for i, op := range c.Ops {
		where := fmt.Sprintf("op %d %+v with top %d cap %d", i, op, len(model), r.Cap())
		need := len(model)
		var apply func()
		var update func()
		switch op.Op {
		case "push":
			next++
			v := lnum(next)
			need = len(model) + 1
			apply = func() { r.Push(v) }
			update = func() { model = append(model, v) }
		case "pop":
			if len(model) == 0 {
				continue
			}
			want := model[len(model)-1]
			apply = func() {
				if got := r.Pop(); want != nil && got != want {
					panic(fmt.Sprintf("Pop gave %v, model %v", got, want))
				}
			}
			update = func() { model = model[:len(model)-1] }
		case "set":
			idx := op.A % (len(model) + 3)
			next++
			v := lnum(next)
			if idx+1 > need {
				need = idx + 1
			}
			apply = func() { r.Set(idx, v) }
			update = func() {
				for len(model) <= idx {
					model = append(model, nil) // slots skipped by Set are not defined by the model
				}
				model[idx] = v
			}
		case "settop":
			top := op.A % (len(model) + 40)
			need = top
			apply = func() { r.SetTop(top) }
			update = func() {
				for len(model) < top {
					model = append(model, lua.LNil)
				}
				model = model[:top]
			}
		case "fillnil":
			if len(model) == 0 {
				continue
			}
			from := op.A % (len(model) + 1)
			n := op.B % 20
			need = from + n
			apply = func() { r.FillNil(from, n) }
			update = func() {
				model = model[:from]
				for j := 0; j < n; j++ {
					model = append(model, lua.LNil)
				}
			}
		case "copyrange":
			if len(model) == 0 {
				continue
			}
			regv := op.A % (len(model) + 1)
			start := op.B % (len(model) + 2)
			n := op.C % 12
			limitIdx := -1
			if op.D%3 == 1 {
				limitIdx = op.D % (len(model) + 1)
			}
			need = regv + n
			apply = func() { r.CopyRange(regv, start, limitIdx, n) }
			update = func() {
				lim := limitIdx
				if lim == -1 || lim > len(model) {
					lim = len(model)
				}
				src := append([]lua.LValue(nil), model...)
				out := append([]lua.LValue(nil), model[:min(regv, len(model))]...)
				for len(out) < regv {
					out = append(out, nil)
				}
				for j := 0; j < n; j++ {
					if s := start + j; s >= lim || s < 0 {
						out = append(out, lua.LNil)
					} else if regv+j <= s || true {
						// CopyRange copies forward slot by slot: a destination below the source reads original values,
						// an overlapping destination above the source reads already-copied ones (as the code documents: "move")
						if s < regv || s >= regv+j {
							out = append(out, src[s])
						} else {
							out = append(out, out[s])
						}
					}
				}
				model = out
			}
		case "insert":
			if len(model) == 0 {
				continue
			}
			at := op.A % (len(model) + 2)
			next++
			v := lnum(next)
			need = len(model) + 1
			if at+1 > need {
				need = at + 1
			}
			apply = func() { r.Insert(v, at) }
			update = func() {
				if at >= len(model) {
					for len(model) < at {
						model = append(model, nil)
					}
					model = append(model, v)
					return
				}
				model = append(model, nil)
				copy(model[at+1:], model[at:])
				model[at] = v
			}
		default:
			continue
		}
		capBefore := r.Cap()
		ov, other := step(apply)
		if other != nil {
			return fmt.Errorf("%s: %v", where, other)
		}
		if ov {
			overflowed = true
			if need <= limit {
				return fmt.Errorf("%s: overflow reported although %d slots fit the limit %d", where, need, limit)
			}
			// an operation that overflowed is abandoned (the VM raises a Lua error); the registry must still be usable:
			// restart from a clean top so that model and registry agree again
			if o2, oth := step(func() { r.SetTop(0) }); o2 || oth != nil {
				return fmt.Errorf("%s: SetTop(0) after an overflow failed", where)
			}
			model = model[:0]
			continue
		}
		if need > limit {
			return fmt.Errorf("%s: %d slots were needed, beyond the limit %d, and no overflow was reported", where, need, limit)
		}
		if r.Cap() > capBefore {
			grew = true
			if r.Cap() > limit {
				return fmt.Errorf("%s: the registry grew to %d slots, beyond its limit %d", where, r.Cap(), limit)
			}
		}
		update()
		if r.Top() != len(model) {
			return fmt.Errorf("%s: Top()=%d, model %d", where, r.Top(), len(model))
		}
		for j, want := range model {
			if want == nil {
				continue
			}
			if got := r.Get(j); got != want {
				return fmt.Errorf("%s: slot %d holds %v, model %v", where, j, got, want)
			}
		}
	}
	if grew {
		k.Class("grew")
	}
	if overflowed {
		k.Class("overflowed")
	}
	if (grew || overflowed) && len(c.Ops) >= 6 {
		k.Nontrivial(vf.Hash(fmt.Sprint(c)))
		k.Sample("registry", 2, c)
	}
	return nil
})

func min(a, b int) int {
	if a < b {
		return a
	}
	return b
}

func TestRegistryModel(t *testing.T) {
	vf.Rapid(t, func(rt *rapid.T) {
		c := &RegCase{Size: rapid.IntRange(1, 40).Draw(rt, "size"), Grow: rapid.SampledFrom([]int{0, 1, 3, 7, 32}).Draw(rt, "grow")}
		switch rapid.IntRange(0, 3).Draw(rt, "maxkind") {
		case 1:
			c.Max = c.Size
		case 2:
			c.Max = c.Size + rapid.IntRange(1, 40).Draw(rt, "extra")
		case 3:
			c.Max = c.Size + 200
		}
		n := rapid.IntRange(1, 80).Draw(rt, "nops")
		ops := []string{"push", "push", "push", "pop", "set", "settop", "fillnil", "copyrange", "insert"}
		for i := 0; i < n; i++ {
			c.Ops = append(c.Ops, RegOp{Op: rapid.SampledFrom(ops).Draw(rt, "op"), A: rapid.IntRange(0, 100).Draw(rt, "a"), B: rapid.IntRange(0, 100).Draw(rt, "b"),
				C: rapid.IntRange(0, 100).Draw(rt, "c"), D: rapid.IntRange(0, 100).Draw(rt, "d")})
		}
		chkReg.Run(rt, c)
	})
}
