// gen_test.go: the generators (bounded-exhaustive enumeration, random histories, host-module histories) and the tests.
package c20

import (
	"encoding/json"
	"fmt"
	"runtime/debug"
	"strings"
	"testing"

	"pgregory.net/rapid"

	"verif/vf"
)

func TestMain(m *testing.M) {
	// a case builds a fresh LState; most of the cost is allocation, so collect less often (well below the driver's cap)
	debug.SetGCPercent(400)
	vf.Main(m)
}

func TestReplay(t *testing.T) { vf.Replay(t) }

var (
	chkExhaustive = vf.Register("exhaustive", oracle)
	chkRandom     = vf.Register("random", oracle)
	chkHost       = vf.Register("host", oracle)
)

func init() {
	chkRandom.Journal = true
	chkHost.Journal = true
}

// ---------------------------------------------------------------------------------------------
// bounded-exhaustive: two modules, every (source, behaviour) configuration of each, every history up to a length

type exBehaviour struct {
	name string
	mk   func(self, other, lid string) *Loader
}

var exBehaviours = []exBehaviour{
	{"ret_table", func(s, o, id string) *Loader { return &Loader{ID: id, Ret: "table"} }},
	{"ret_nothing", func(s, o, id string) *Loader { return &Loader{ID: id, Ret: "nothing"} }},
	{"ret_false", func(s, o, id string) *Loader { return &Loader{ID: id, Ret: "false"} }},
	{"assign_ret_nothing", func(s, o, id string) *Loader {
		return &Loader{ID: id, Steps: []LStep{{"setloaded", s, "table"}}, Ret: "nothing"}
	}},
	{"assign_ret_table", func(s, o, id string) *Loader {
		return &Loader{ID: id, Steps: []LStep{{"setloaded", s, "table"}}, Ret: "table"}
	}},
	{"unassign_ret_table", func(s, o, id string) *Loader {
		return &Loader{ID: id, Steps: []LStep{{"setloaded", s, "nil"}}, Ret: "table"}
	}},
	{"raise", func(s, o, id string) *Loader { return &Loader{ID: id, Ret: "raise"} }},
	{"require_self", func(s, o, id string) *Loader {
		return &Loader{ID: id, Steps: []LStep{{"require", s, ""}}, Ret: "table"}
	}},
	{"require_other", func(s, o, id string) *Loader {
		return &Loader{ID: id, Steps: []LStep{{"require", o, ""}}, Ret: "table"}
	}},
	{"prequire_other", func(s, o, id string) *Loader {
		return &Loader{ID: id, Steps: []LStep{{"prequire", o, ""}}, Ret: "table"}
	}},
	{"assign_require_self", func(s, o, id string) *Loader {
		return &Loader{ID: id, Steps: []LStep{{"setloaded", s, "table"}, {"require", s, ""}}, Ret: "nothing"}
	}},
	{"assign_raise", func(s, o, id string) *Loader {
		return &Loader{ID: id, Steps: []LStep{{"setloaded", s, "table"}}, Ret: "raise"}
	}},
	{"assign_other", func(s, o, id string) *Loader {
		return &Loader{ID: id, Steps: []LStep{{"setloaded", o, "table"}}, Ret: "table"}
	}},
	{"module_fn", func(s, o, id string) *Loader {
		// module() is refused inside a Go function: the Go-loader variant stores a table instead
		if strings.HasSuffix(id, "-pg") {
			return &Loader{ID: id, Steps: []LStep{{"setloaded", s, "table"}}, Ret: "nil"}
		}
		return &Loader{ID: id, Steps: []LStep{{"module", s, ""}}, Ret: "nothing"}
	}},
}

const exSources = 4 // preload_lua, preload_go, file, preload_lua + file

func exConfigs() int { return 1 + exSources*len(exBehaviours) }

// exSetup is the setup of one module: configuration 0 is "no source".
func exSetup(cfg int, self, other string) []Action {
	if cfg == 0 {
		return nil
	}
	cfg--
	src, b := cfg/len(exBehaviours), exBehaviours[cfg%len(exBehaviours)]
	switch src {
	case 0:
		return []Action{{Op: "preload_lua", Mod: self, Ld: b.mk(self, other, self+"-pl")}}
	case 1:
		return []Action{{Op: "preload_go", Mod: self, Ld: b.mk(self, other, self+"-pg")}}
	case 2:
		return []Action{{Op: "file_write", File: "d1/" + self + ".lua", Ld: b.mk(self, other, self+"-f")}}
	default:
		return []Action{
			{Op: "preload_lua", Mod: self, Ld: b.mk(self, other, self+"-pl")},
			{Op: "file_write", File: "d1/" + self + ".lua", Ld: &Loader{ID: self + "-f", Ret: "table"}},
		}
	}
}

const exAlphabet = 10

// the enumerated histories only need require and pcall: open the two mandatory libraries (README recipe)
var exOpen = []string{"package", "_G"}

func exAction(i, pos int) Action {
	mod := []string{"ma", "mb"}[i%2]
	switch i / 2 {
	case 0:
		return Action{Op: "require", Mod: mod, Via: "lua"}
	case 1:
		return Action{Op: "loaded_clear", Mod: mod}
	case 2:
		return Action{Op: "preload_clear", Mod: mod}
	case 3:
		return Action{Op: "register", Mod: mod, Via: "lua"}
	default:
		return Action{Op: "preload_lua", Mod: mod, Ld: &Loader{ID: fmt.Sprintf("%s-h%d", mod, pos), Ret: "table"}}
	}
}

// TestExhaustive enumerates every configuration of the two modules and every history over the 10-action alphabet up
// to length 3 (quick) or 4 (thorough).
func TestExhaustive(t *testing.T) {
	si, sn := vf.Shard()
	maxLen := vf.Scale(3, 4)
	nc := exConfigs()
	path := []string{"$S/d1/?.lua"}
	var hist []Action
	var setup []Action
	var rec func(depth int)
	failed := false
	rec = func(depth int) {
		if failed {
			return
		}
		c := &Case{Kind: "exhaustive", Open: exOpen, Path: path}
		c.Steps = make([]Action, 0, len(setup)+len(hist))
		c.Steps = append(c.Steps, setup...)
		c.Steps = append(c.Steps, hist...)
		chkExhaustive.Run(t, c)
		if depth == maxLen {
			return
		}
		for i := 0; i < exAlphabet; i++ {
			hist = append(hist, exAction(i, depth))
			rec(depth + 1)
			hist = hist[:len(hist)-1]
		}
	}
	for ca := 0; ca < nc; ca++ {
		for cb := 0; cb < nc; cb++ {
			if (ca*nc+cb)%sn != si {
				continue
			}
			setup = append(exSetup(ca, "ma", "mb"), exSetup(cb, "mb", "ma")...)
			hist = hist[:0]
			rec(0)
		}
	}
	chkExhaustive.SetExhaustive(true)
	chkExhaustive.Note("space", fmt.Sprintf("modules {ma, mb}; per module: no source, or one of %d behaviours %v as package.preload function set from Lua / "+
		"L.PreloadModule Go loader / file on package.path / preload + file (%d configurations each, %d pairs); then every history of length <= %d over "+
		"{require, clear package.loaded, clear package.preload, RegisterModule, set a fresh table-returning preload} x {ma, mb}",
		len(exBehaviours), behaviourNames(), nc, nc*nc, maxLen))
}

func behaviourNames() []string {
	var n []string
	for _, b := range exBehaviours {
		n = append(n, b.name)
	}
	return n
}

// ---------------------------------------------------------------------------------------------
// random histories

// Path templates.  The first nFileTemplates name places where the history can put a file; "x?_?" substitutes twice,
// "fixed.lua" has no "?" (every module name resolves to that one file), "$S/nodir" never exists and the empty
// template (";;" in package.path) names nothing.
var templates = []string{"$S/d1/?.lua", "$S/d2/?.lua", "$S/d1/?/init.lua", "$S/d2/x?_?.lua", "$S/d2/fixed.lua", "$S/nodir/?.lua", ""}

const nFileTemplates = 5

// template draw weights (rapid favours small indices anyway)
var templateWeights = []int{30, 25, 15, 10, 4, 12, 4}

func pick[T any](rt *rapid.T, label string, xs []T) T {
	return xs[rapid.IntRange(0, len(xs)-1).Draw(rt, label)]
}

// weighted draws an index with the given weights.
func weighted(rt *rapid.T, label string, w []int) int {
	tot := 0
	for _, x := range w {
		tot += x
	}
	r := rapid.IntRange(0, tot-1).Draw(rt, label)
	for i, x := range w {
		if r < x {
			return i
		}
		r -= x
	}
	return len(w) - 1
}

var retKinds = []string{"table", "nothing", "nil", "false", "true", "string", "raise", "raise_table"}
var retWeights = []int{36, 20, 5, 7, 3, 8, 16, 5}
var setVals = []string{"table", "string", "true", "false", "nil"}

// genLoader draws a loader for module self.  ring is the module a "next" require goes to (so that chains and cycles over
// the whole name set are likely); graph forces a leading require edge.
func genLoader(rt *rapid.T, self string, lua bool, names []string, graph bool) *Loader {
	ld := &Loader{}
	if graph && rapid.IntRange(0, 9).Draw(rt, "edge") >= 2 {
		op := "require"
		if rapid.IntRange(0, 3).Draw(rt, "protected") == 0 {
			op = "prequire"
		}
		ld.Steps = append(ld.Steps, LStep{Op: op, Mod: pick(rt, "mod", names)})
	}
	n := weighted(rt, "nsteps", []int{50, 30, 15, 5})
	for i := 0; i < n; i++ {
		w := []int{35, 20, 35, 10}
		if !lua {
			w[3] = 0
		}
		switch weighted(rt, "lstep", w) {
		case 0:
			ld.Steps = append(ld.Steps, LStep{Op: "require", Mod: genTarget(rt, self, names)})
		case 1:
			ld.Steps = append(ld.Steps, LStep{Op: "prequire", Mod: genTarget(rt, self, names)})
		case 2:
			mod := self
			if rapid.IntRange(0, 4).Draw(rt, "assign_other") == 4 {
				mod = pick(rt, "mod", names)
			}
			ld.Steps = append(ld.Steps, LStep{Op: "setloaded", Mod: mod, Val: pick(rt, "val", setVals)})
		case 3:
			mod := self
			if rapid.IntRange(0, 5).Draw(rt, "module_other") == 5 {
				mod = pick(rt, "mod", names)
			}
			ld.Steps = append(ld.Steps, LStep{Op: "module", Mod: mod})
		}
	}
	ld.Ret = retKinds[weighted(rt, "ret", retWeights)]
	return ld
}

func genTarget(rt *rapid.T, self string, names []string) string {
	switch rapid.IntRange(0, 3).Draw(rt, "target") {
	case 0:
		return self
	case 1:
		// the next name: chains and cycles through the whole name set
		for i, n := range names {
			if n == self {
				return names[(i+1)%len(names)]
			}
		}
	}
	return pick(rt, "mod", names)
}

func genPath(rt *rapid.T) []string {
	n := rapid.IntRange(1, 4).Draw(rt, "npath")
	p := make([]string, n)
	for i := range p {
		p[i] = templates[weighted(rt, "template", templateWeights)]
	}
	return p
}

var vias = []string{"lua", "lua", "go", "co"}

// genSource draws an action that gives mod a loader: a preload entry or a file that the given path finds.
func genSource(rt *rapid.T, mod string, names, path []string, graph bool) Action {
	switch weighted(rt, "source", []int{40, 25, 35}) {
	case 0:
		return Action{Op: "preload_lua", Mod: mod, Ld: genLoader(rt, mod, true, names, graph)}
	case 1:
		return Action{Op: "preload_go", Mod: mod, Ld: genLoader(rt, mod, false, names, graph)}
	}
	ld := genLoader(rt, mod, true, names, graph)
	ld.Syntax = rapid.IntRange(0, 11).Draw(rt, "syntax") == 11
	t := pick(rt, "template", path)
	if !strings.HasPrefix(t, "$S/d") { // the directory that never exists, the empty template
		t = templates[0]
	}
	return Action{Op: "file_write", File: Subst(t, mod)[3:], Ld: ld}
}

func genAction(rt *rapid.T, names, path []string, graph bool) Action {
	w := []int{44, 16, 4, 10, 4, 5, 3, 4, 4, 2, 3}
	mod := pick(rt, "mod", names)
	switch weighted(rt, "op", w) {
	case 0:
		return Action{Op: "require", Mod: mod, Via: pick(rt, "via", vias)}
	case 1:
		return genSource(rt, mod, names, path, graph)
	case 2:
		return Action{Op: "preload_clear", Mod: mod}
	case 3:
		return Action{Op: "loaded_clear", Mod: mod}
	case 4:
		return Action{Op: "loaded_set", Mod: mod, Val: pick(rt, "val", []string{"table", "string", "true", "false"})}
	case 5:
		// a file anywhere, on the path or not
		ld := genLoader(rt, mod, true, names, graph)
		ld.Syntax = rapid.IntRange(0, 11).Draw(rt, "syntax") == 11
		return Action{Op: "file_write", File: Subst(pick(rt, "template", templates[:nFileTemplates]), mod)[3:], Ld: ld}
	case 6:
		return Action{Op: "file_remove", File: Subst(pick(rt, "template", templates[:nFileTemplates]), mod)[3:]}
	case 7:
		return Action{Op: "path_set", Path: genPath(rt)}
	case 8:
		return Action{Op: "register", Mod: mod, Via: "lua"}
	case 9:
		return Action{Op: "std_probe", Mod: pick(rt, "lib", StdLibs), Via: "lua"}
	default:
		// the whole table is exchanged: the searcher has to look package.preload up at every require
		return Action{Op: "preload_replace", Val: pick(rt, "val", []string{"empty", "copy"})}
	}
}

// number gives every loader of the case its own id.
func number(c *Case) {
	for i := range c.Steps {
		if ld := c.Steps[i].Ld; ld != nil {
			ld.ID = fmt.Sprintf("k%d", i)
		}
	}
}

func genHistory(rt *rapid.T) *Case {
	c := &Case{Kind: "random", Path: genPath(rt)}
	// most histories concentrate on two or three names so that the same module is hit again and again
	var names []string
	switch rapid.IntRange(0, 5).Draw(rt, "nameset") {
	case 0:
		names = Names[:2]
	case 1:
		names = []string{"ma", "ma.mb", "mb"}
	case 2:
		names = Names[:3]
	case 3:
		names = Names[:4]
	case 4:
		names = []string{"ma.mb.mc", "ma", "ma.mb"}
	default:
		names = Names
	}
	// a third of the histories are "graph" histories: most loaders start by requiring some module of the set
	graph := rapid.IntRange(0, 2).Draw(rt, "graph") == 2
	// setup: most modules get a source before the history proper starts
	for _, n := range names {
		if rapid.IntRange(0, 9).Draw(rt, "has_source") >= 2 {
			c.Steps = append(c.Steps, genSource(rt, n, names, c.Path, graph))
		}
	}
	path := c.Path
	c.Steps = append(c.Steps, rapid.SliceOfN(rapid.Custom(func(t *rapid.T) Action { return genAction(t, names, path, graph) }), 1, 30-len(c.Steps)).Draw(rt, "steps")...)
	number(c)
	return c
}

func TestRandomHistories(t *testing.T) {
	vf.Rapid(t, func(rt *rapid.T) {
		chkRandom.Run(rt, genHistory(rt))
	})
}

// ---------------------------------------------------------------------------------------------
// host modules: libraries opened one by one or by OpenLibs, RegisterModule, PreloadModule

func genHost(rt *rapid.T) *Case {
	c := &Case{Kind: "host", Path: genPath(rt)}
	if rapid.IntRange(0, 2).Draw(rt, "subset") > 0 {
		c.Open = []string{"package", "_G"}
		rest := rapid.Permutation(StdLibs[2:]).Draw(rt, "order")
		k := rapid.IntRange(0, len(rest)).Draw(rt, "nlibs")
		c.Open = append(c.Open, rest[:k]...)
	}
	hasCo := len(c.Open) == 0
	for _, l := range c.Open {
		if l == "coroutine" {
			hasCo = true
		}
	}
	c.Steps = rapid.SliceOfN(rapid.Custom(func(rt *rapid.T) Action {
		mod := pick(rt, "mod", Names)
		via := pick(rt, "via", vias)
		if via == "co" && !hasCo {
			via = "lua"
		}
		switch weighted(rt, "op", []int{30, 25, 15, 15, 8, 4, 3}) {
		case 0:
			return Action{Op: "std_probe", Mod: pick(rt, "lib", StdLibs), Via: via}
		case 1:
			return Action{Op: "register", Mod: mod, Via: via}
		case 2:
			return Action{Op: "require", Mod: mod, Via: via}
		case 3:
			return Action{Op: "preload_go", Mod: mod, Ld: genLoader(rt, mod, false, Names, false)}
		case 4:
			return Action{Op: "loaded_clear", Mod: mod}
		case 5:
			return Action{Op: "preload_lua", Mod: mod, Ld: genLoader(rt, mod, true, Names, false)}
		}
		return Action{Op: "preload_clear", Mod: mod}
	}), 1, 12).Draw(rt, "steps")
	number(c)
	return c
}

func TestHostModules(t *testing.T) {
	vf.Rapid(t, func(rt *rapid.T) {
		chkHost.Run(rt, genHost(rt))
	})
}

// ---------------------------------------------------------------------------------------------
// open known findings: re-run each example and say whether it still fails

func TestKnownFindings(t *testing.T) {
	for _, f := range vf.Findings() {
		if f.Property != "C20" || f.Status != "open" || f.Example == "" {
			continue
		}
		var c Case
		if err := json.Unmarshal([]byte(f.Example), &c); err != nil {
			t.Logf("finding %s: example is not a case: %v", f.ID, err)
			continue
		}
		if err := chkRandom.Try(&c); err != nil {
			t.Logf("KNOWN-FINDING still fails: %s: %v", f.ID, err)
		} else {
			t.Logf("KNOWN-FINDING no longer fails: %s", f.ID)
		}
	}
}
