package c19

import (
	"bytes"

	"pgregory.net/rapid"

	im "verif/iomodel"
)

// ---------------------------------------------------------------------------------------------
// generator: a model-aware random walk.  The generator carries the model along so that offsets, counts and payload
// sizes can aim at the interesting places (end of file, multiples of 4096, line starts) and so that the history stays
// inside the domain by construction: a candidate operation the model calls Unspec is simply not emitted.

type profile struct {
	name     string
	maxOps   int
	modes    []string // weighted by repetition
	styles   []int    // content styles, weighted by repetition
	wRead    int
	wWrite   int
	wSeek    int
	wFlush   int
	wSetvbuf int
	wClose   int
	wLines   int
	wOpen2   int
	wClosed  int
	wIoLines int
	absent   int // percent of cases starting without a file
	fullBuf  int // percent of writable handles that get setvbuf("full") as first operation
	rounds   int // number of consecutive rapid Repeat rounds (each averages -rapid.steps = 30 steps); 0 means 1
}

var allModes = []string{
	"r", "rb", "w", "wb", "a", "ab",
	"r+", "rb+", "r+b", "w+", "wb+", "w+b", "a+", "ab+", "a+b",
}

var profMixed = &profile{name: "mixed", maxOps: 40,
	modes:  append(append([]string{}, allModes...), "r+", "w+", "a+", "r", "r+"),
	styles: []int{0, 0, 1, 2, 3, 3},
	wRead:  30, wWrite: 28, wSeek: 16, wFlush: 8, wSetvbuf: 5, wClose: 5, wLines: 10, wOpen2: 4, wClosed: 4, wIoLines: 2,
	absent: 6, fullBuf: 20}

var profUpdate = &profile{name: "update", maxOps: 50,
	modes:  []string{"r+", "r+", "r+", "rb+", "r+b", "w+", "w+b", "wb+", "a+", "a+", "ab+", "a+b"},
	styles: []int{3, 3, 3, 0, 2},
	wRead:  34, wWrite: 34, wSeek: 14, wFlush: 8, wSetvbuf: 4, wClose: 2, wLines: 4, wOpen2: 2, wClosed: 1, wIoLines: 1,
	absent: 2, fullBuf: 40}

var profText = &profile{name: "text", maxOps: 40,
	modes:  []string{"r", "r", "rb", "r+", "r+", "a+", "w+", "r+b"},
	styles: []int{0, 0, 0, 1, 1, 1},
	wRead:  50, wWrite: 12, wSeek: 10, wFlush: 3, wSetvbuf: 2, wClose: 3, wLines: 22, wOpen2: 3, wClosed: 2, wIoLines: 4,
	absent: 1, fullBuf: 10}

// long histories: several Repeat rounds in a row on few, long-lived handles (thorough tier only)
var profLong = &profile{name: "long", maxOps: 400,
	modes:  []string{"r+", "r+", "w+", "a+", "r+b", "a+b", "r", "w", "a"},
	styles: []int{0, 1, 2, 3, 3},
	wRead:  32, wWrite: 30, wSeek: 16, wFlush: 8, wSetvbuf: 4, wClose: 1, wLines: 8, wOpen2: 1, wClosed: 1, wIoLines: 1,
	absent: 2, fullBuf: 30, rounds: 5}

type gen struct {
	t   *rapid.T
	p   *profile
	w   *im.World
	ops []im.Op
}

func (g *gen) intn(lo, hi int, label string) int { return rapid.IntRange(lo, hi).Draw(g.t, label) }

// cat draws a categorical choice in [0,n).  rapid's integer generators are log-uniform (small values dominate), which
// is what one wants for magnitudes but not for "which of n alternatives"; the raw draw is therefore mixed before it is
// reduced, with 0 still mapping to alternative 0 so that shrinking has a direction.
func (g *gen) cat(n int, label string) int {
	if n <= 1 {
		return 0
	}
	u := uint64(rapid.Uint32().Draw(g.t, label))
	return int(((u * 0x9E3779B97F4A7C15) >> 29) % uint64(n))
}

func (g *gen) pct(p int, label string) bool { return g.cat(100, label) >= 100-p }

func pick[T any](g *gen, xs []T, label string) T { return xs[g.cat(len(xs), label)] }

// emit applies the operation to the model; an operation outside the domain is dropped.
func (g *gen) emit(op im.Op) bool {
	e := g.w.Apply(&op)
	if e.Unspec != "" {
		return false
	}
	g.ops = append(g.ops, op)
	return true
}

// ---------------------------------------------------------------------------------------------
// content

var lineBodyBytes = []byte("abcxyzABC0123456789 \t\r\r.,;-+_\x00\xff\xc3\xa9")
var anyBytes = []byte("ab01 \n\n\n\r\r\t\x00\xff,.-+eE\x80z9\x85\xa0")

var numerals = []string{"0", "7", "42", "-3", "+5", "3.25", "-0.5", ".5", "5.", "1e3", "2E-2", "-1.5e+2", "123456789", "00012", "9007199254740993", "0.1"}
var numSeps = []string{" ", "\n", "\t", "\r\n", " \n ", ",", ";", "  ", "\n\n", " \t", "\r", "\v", "\f", "-", "+", "-", "",
	// bytes that are blanks only for other notions of "space" (Latin-1 NEL / NBSP, their UTF-8 forms, ASCII separators, NUL):
	// C isspace in the "C" locale says no, so a numeral behind one is not reached
	"\x85", "\xa0", " \xa0", "\n\x85", "\xc2\xa0", "\xc2\x85", "\x1c", "\x1f", "\x00", "\x08"}
var nonNumerals = []string{"x", ",", "abc", "-", "0x10", "1e", "inf", "nan", "1_0", "12abc", ".", "#", "1.5.2", "1p3"}

var bigLens = []int{4094, 4095, 4096, 4097, 4098, 5000, 8191, 8192, 8193}

func (g *gen) smallLen(label string) int {
	switch g.cat(10, label+"_k") {
	case 0:
		return 0
	case 1, 2:
		return 1
	case 3, 4, 5:
		return g.intn(2, 12, label)
	case 6, 7:
		return g.intn(13, 100, label)
	default:
		return g.intn(100, 1200, label)
	}
}

func (g *gen) randBytes(alpha []byte, n int, label string) []byte {
	out := make([]byte, n)
	for i := range out {
		out[i] = alpha[g.cat(len(alpha), label)]
	}
	return out
}

// pattern is a short byte pattern; long runs are the pattern repeated.
func (g *gen) fillSeg(alpha []byte, total int, label string) im.Seg {
	if total <= 0 {
		return im.Seg{}
	}
	pl := g.intn(1, 7, label+"_pl")
	if pl > total {
		pl = total
	}
	pat := g.randBytes(alpha, pl, label+"_pat")
	return im.Seg{Pat: pat, Rep: (total + pl - 1) / pl}
}

func (g *gen) lineTerm(label string) string {
	switch g.cat(10, label) {
	case 0, 1:
		return "\r\n"
	case 2:
		return "\r"
	case 3:
		return "\n\r"
	default:
		return "\n"
	}
}

// textSegs produces a few lines; bodies may be longer than the 4096-byte buffers.
func (g *gen) textSegs(maxLines int, label string) []im.Seg {
	var segs []im.Seg
	n := g.intn(0, maxLines, label+"_n")
	for i := 0; i < n; i++ {
		var bl int
		if g.pct(12, label+"_big") {
			bl = pick(g, bigLens, label+"_bl")
		} else {
			bl = g.smallLen(label + "_sl")
			if bl > 200 {
				bl = bl % 200
			}
		}
		if bl > 0 {
			if bl <= 16 {
				segs = append(segs, im.Seg{Pat: g.randBytes(lineBodyBytes, bl, label+"_body")})
			} else {
				s := g.fillSeg(lineBodyBytes, bl, label+"_fill")
				// exact length: the repeat may overshoot, add a cut piece instead
				pl := len(s.Pat)
				s.Rep = bl / pl
				segs = append(segs, s)
				if rest := bl - s.Rep*pl; rest > 0 {
					segs = append(segs, im.Seg{Pat: append(im.B(nil), s.Pat[:rest]...)})
				}
			}
		}
		if i < n-1 || g.pct(70, label+"_lastnl") {
			segs = append(segs, im.Seg{Pat: im.B(g.lineTerm(label + "_term"))})
		}
	}
	return segs
}

func (g *gen) numeralSegs(maxTok int, label string) []im.Seg {
	var b bytes.Buffer
	n := g.intn(0, maxTok, label+"_n")
	if g.pct(30, label+"_leadsep") {
		b.WriteString(pick(g, numSeps, label+"_sep0"))
	}
	for i := 0; i < n; i++ {
		if g.pct(8, label+"_bad") {
			b.WriteString(pick(g, nonNumerals, label+"_nn"))
		} else {
			b.WriteString(pick(g, numerals, label+"_num"))
		}
		if i < n-1 || g.pct(60, label+"_trail") {
			b.WriteString(pick(g, numSeps, label+"_sep"))
			if g.pct(20, label+"_sep2") {
				b.WriteString(pick(g, numSeps, label+"_sepx"))
			}
		}
	}
	if b.Len() == 0 {
		return nil
	}
	return []im.Seg{{Pat: im.B(b.Bytes())}}
}

func (g *gen) styled(style int, label string) []im.Seg {
	switch style {
	case 0:
		return g.textSegs(8, label)
	case 1:
		return g.numeralSegs(10, label)
	case 2:
		return []im.Seg{{Pat: im.B(g.randBytes(anyBytes, g.smallLen(label+"_len")%64, label+"_b"))}}
	}
	return nil
}

func (g *gen) targetSize() int {
	switch g.cat(20, "size_k") {
	case 0:
		return 0
	case 1:
		return 1
	case 2, 3:
		return 4095
	case 4, 5:
		return 4096
	case 6, 7:
		return 4097
	case 8, 9:
		return 9000
	case 10:
		return pick(g, []int{8191, 8192, 8193}, "size_8k")
	case 11, 12, 13, 14:
		return g.intn(2, 200, "size_small")
	case 15, 16:
		return g.intn(200, 4094, "size_mid")
	default:
		return g.intn(4098, 12000, "size_big")
	}
}

// genContent: [fill up to somewhere] + styled piece + [fill up to the target size], cut to the target size.
func (g *gen) genContent() ([]im.Seg, int) {
	target := g.targetSize()
	if target == 0 {
		return nil, 0
	}
	style := pick(g, g.p.styles, "style")
	var segs []im.Seg
	fillAlpha := lineBodyBytes
	if style == 2 || style == 3 {
		fillAlpha = anyBytes
	}
	if style == 3 && g.pct(50, "fill_lines") {
		fillAlpha = []byte("abc\n")
	}
	// a prefix that puts the styled piece near a buffer boundary or near the end
	if target > 64 && g.pct(55, "prefix") {
		var at int
		switch g.cat(3, "prefix_at") {
		case 0:
			at = 4096 - g.intn(0, 40, "prefix_d")
		case 1:
			at = target - g.intn(0, 60, "prefix_e")
		default:
			at = g.intn(0, target, "prefix_r")
		}
		if at > target {
			at = target
		}
		if at > 0 {
			s := g.fillSeg(fillAlpha, at, "prefix_fill")
			pl := len(s.Pat)
			s.Rep = at / pl
			if s.Rep > 0 {
				segs = append(segs, s)
			}
			if style == 0 || style == 1 {
				segs = append(segs, im.Seg{Pat: im.B("\n")})
			}
		}
	}
	segs = append(segs, g.styled(style, "styled")...)
	have := len(im.SegBytes(segs))
	if have < target {
		segs = append(segs, g.fillSeg(fillAlpha, target-have, "tail_fill"))
		if (style == 0 || style == 1) && g.pct(50, "more_text") {
			segs = append(segs, g.styled(style, "styled2")...)
		}
	}
	return segs, target
}

// payload for write
func (g *gen) payload(h *im.Handle) []im.Seg {
	size := len(g.w.Data)
	pos := h.Pos
	if h.App {
		pos = size
	}
	toB := 4096 - pos%4096
	switch g.cat(12, "pay_k") {
	case 0:
		return nil // empty string
	case 1, 2:
		return g.textSegs(3, "pay_text")
	case 3:
		return g.numeralSegs(4, "pay_num")
	case 4, 5:
		return []im.Seg{{Pat: im.B(g.randBytes(anyBytes, 1+g.smallLen("pay_len")%40, "pay_b"))}}
	case 6:
		n := pick(g, bigLens, "pay_big")
		return []im.Seg{g.exactFill(n, "pay_bigfill")}
	case 7, 8:
		n := toB + g.intn(-2, 2, "pay_tob")
		if n < 1 {
			n = 1
		}
		return []im.Seg{g.exactFill(n, "pay_bfill")}
	case 9:
		n := toB + 4096 + g.intn(-1, 1, "pay_tob2")
		return []im.Seg{g.exactFill(n, "pay_b2fill")}
	default:
		return []im.Seg{{Pat: im.B(g.randBytes(lineBodyBytes, 1+g.intn(0, 10, "pay_sl"), "pay_sb"))}}
	}
}

func (g *gen) exactFill(n int, label string) im.Seg {
	if n <= 0 {
		return im.Seg{}
	}
	c := pick(g, []byte("WXYZ#\n\r0"), label)
	return im.Seg{Pat: im.B{c}, Rep: n}
}

// ---------------------------------------------------------------------------------------------
// positions and counts

func (g *gen) interestingPos(h *im.Handle) int {
	size := len(g.w.Data)
	cur := h.Pos
	switch g.cat(16, "pos_k") {
	case 0:
		return 0
	case 1:
		return size
	case 2:
		return size - g.intn(1, 6, "pos_e")
	case 3:
		return size + g.intn(1, 6, "pos_b")
	case 4:
		return size + g.intn(7, 6000, "pos_bb")
	case 5, 6:
		return 4096*g.intn(1, 2, "pos_m") + g.intn(-3, 3, "pos_md")
	case 7:
		return cur + g.intn(-5, 5, "pos_c")
	case 8, 9:
		// a line start
		if size > 0 {
			from := g.cat(size, "pos_ls")
			if i := bytes.IndexByte(g.w.Data[from:], '\n'); i >= 0 {
				return from + i + 1
			}
		}
		return 0
	case 10:
		return -g.intn(1, 9, "pos_neg")
	case 11:
		return 1
	case 12, 13:
		if size > 0 {
			return g.insidePos()
		}
		return 0
	default:
		if size == 0 {
			return 0
		}
		return g.cat(size+1, "pos_r")
	}
}

// insidePos is a position before the end of a non-empty file: anywhere, a line start, or the start of a numeral.
func (g *gen) insidePos() int {
	size := len(g.w.Data)
	from := g.cat(size, "in_from")
	switch g.cat(4, "in_k") {
	case 0:
		if i := bytes.IndexByte(g.w.Data[from:], '\n'); i >= 0 && from+i+1 < size {
			return from + i + 1
		}
	case 1:
		for i := from; i < size; i++ {
			c := g.w.Data[i]
			if (c >= '0' && c <= '9' || c == '-' || c == '+' || c == '.') && (i == 0 || bytes.IndexByte([]byte(" \t\n\r\v\f,;"), g.w.Data[i-1]) >= 0) {
				return i
			}
		}
	case 2:
		if size > 4096 {
			return 4096*(1+g.cat(size/4096, "in_m")) - g.intn(0, 6, "in_md")
		}
	}
	return from
}

func (g *gen) count(h *im.Handle) int {
	size := len(g.w.Data)
	rem := size - h.Pos
	toB := 4096 - h.Pos%4096
	var n int
	switch g.cat(14, "cnt_k") {
	case 0, 1:
		n = g.intn(1, 3, "cnt_s")
	case 2, 3:
		n = g.intn(4, 100, "cnt_m")
	case 4:
		n = pick(g, bigLens, "cnt_big")
	case 5:
		n = rem
	case 6:
		n = rem + g.intn(-2, 2, "cnt_r")
	case 7, 8:
		n = toB + g.intn(-2, 2, "cnt_b")
	case 9:
		n = toB + 4096 + g.intn(-1, 1, "cnt_b2")
	case 10:
		n = g.intn(100, 3000, "cnt_l")
	case 11:
		n = 20000
	default:
		n = g.intn(1, 10, "cnt_t")
	}
	if n < 1 {
		n = 1
	}
	if n > 20000 {
		n = 20000
	}
	return n
}

// ---------------------------------------------------------------------------------------------
// operations

func i64(v int) *int64 { x := int64(v); return &x }
func iptr(v int) *int  { return &v }

func (g *gen) via() string {
	if g.pct(10, "via_io") {
		return "io"
	}
	return ""
}

func (g *gen) seekTo(hi int, target int, allowCur bool) im.Op {
	h := g.w.H[hi]
	size := len(g.w.Data)
	var whs []string
	whs = append(whs, "set", "set", "end")
	if allowCur && h.PosKnown {
		whs = append(whs, "cur", "cur")
	}
	wh := pick(g, whs, "seek_wh")
	op := im.Op{K: "seek", H: hi, Wh: wh}
	switch wh {
	case "set":
		op.Off = i64(target)
		if target == 0 && g.pct(30, "seek_set_nooff") {
			op.Off = nil
		}
	case "end":
		op.Off = i64(target - size)
		if target == size && g.pct(30, "seek_end_nooff") {
			op.Off = nil
		}
	case "cur":
		op.Off = i64(target - h.Pos)
		if target == h.Pos {
			switch g.cat(3, "seek_cur_form") {
			case 0:
				op.Off = nil
			case 1:
				op.Off = nil
				op.Wh = ""
			}
		}
	}
	return op
}

func (g *gen) genSeek(hi int) {
	h := g.w.H[hi]
	g.emit(g.seekTo(hi, g.interestingPos(h), true))
}

// beforeInput makes an input operation legal: a flush or seek after output, a known position.
func (g *gen) beforeInput(hi int) {
	h := g.w.H[hi]
	if !h.R {
		return
	}
	if h.Last == im.LWrite {
		if g.pct(50, "w2r_flush") {
			g.emit(im.Op{K: "flush", H: hi, Via: g.via()})
		} else if h.PosKnown && g.pct(40, "w2r_seekcur0") {
			g.emit(g.seekTo(hi, h.Pos, true))
		} else {
			g.genSeek(hi)
		}
	}
	if !h.PosKnown {
		g.emit(g.seekTo(hi, g.interestingPos(h), false))
	}
	if !h.PosKnown {
		g.emit(im.Op{K: "seek", H: hi, Wh: "set", Off: i64(0)})
	}
	if h.Last == im.LWrite { // the seek above was refused (negative target): fall back
		g.emit(im.Op{K: "seek", H: hi, Wh: "set", Off: i64(0)})
	}
}

// beforeOutput makes an output operation legal: a seek (or, in its own class, a flush) after input.
func (g *gen) beforeOutput(hi int) {
	h := g.w.H[hi]
	if !h.W {
		return
	}
	if h.Last == im.LRead {
		if g.pct(40, "r2w_flush") {
			g.emit(im.Op{K: "flush", H: hi, Via: g.via()})
		} else if h.PosKnown && g.pct(50, "r2w_seekcur0") {
			g.emit(g.seekTo(hi, h.Pos, true))
		} else {
			g.genSeek(hi)
		}
	}
	if h.Last == im.LRead {
		g.emit(im.Op{K: "seek", H: hi, Wh: "cur", Off: i64(0)})
	}
}

func (g *gen) numberAhead(h *im.Handle) bool {
	if !h.PosKnown {
		return false
	}
	return im.NumberAhead(g.w.Data, h.Pos)
}

func (g *gen) oneFormat(h *im.Handle, label string) im.RFmt {
	k := g.cat(20, label)
	if g.numberAhead(h) && g.pct(50, label+"_num") {
		k = 19
	}
	switch {
	case k <= 6:
		return im.RFmt{N: iptr(g.count(h))}
	case k <= 8:
		return im.RFmt{N: iptr(0)}
	case k <= 14:
		return im.RFmt{F: "*l"}
	case k <= 16:
		return im.RFmt{F: "*a"}
	default:
		return im.RFmt{F: "*n"}
	}
}

func (g *gen) genRead(hi int) {
	h := g.w.H[hi]
	if size := len(g.w.Data); h.R && h.PosKnown && size > 0 && h.Pos >= size && g.pct(60, "back_inside") {
		g.emit(g.seekTo(hi, g.insidePos(), true))
	}
	g.beforeInput(hi)
	op := im.Op{K: "read", H: hi, Via: g.via()}
	nf := 1
	switch g.cat(12, "read_nf") {
	case 0:
		nf = 0
	case 1, 2:
		nf = 2
	case 3:
		nf = g.intn(3, 5, "read_nf2")
	}
	if nf <= 1 {
		if nf == 1 {
			op.R = []im.RFmt{g.oneFormat(h, "fmt")}
		}
		if !g.emit(op) && nf == 1 && op.R[0].F == "*n" {
			op.R = []im.RFmt{{F: "*l"}}
			g.emit(op)
		}
		return
	}
	// multi-format: the formats are chosen one by one against a scratch copy of the model so that each aims at the
	// position the previous ones leave behind
	scratch := *g.w
	scratch.Data = g.w.Data
	hs := make([]*im.Handle, len(g.w.H))
	for i, x := range g.w.H {
		c := *x
		hs[i] = &c
	}
	scratch.H = hs
	for i := 0; i < nf; i++ {
		f := g.oneFormat(hs[hi], "mfmt")
		probe := im.Op{K: "read", H: hi, R: []im.RFmt{f}}
		if e := scratch.Apply(&probe); e.Unspec != "" || e.FirstNil {
			f = im.RFmt{F: "*l"}
			probe.R = []im.RFmt{f}
			scratch.Apply(&probe)
		}
		op.R = append(op.R, f)
	}
	g.emit(op)
}

func (g *gen) genWrite(hi int) {
	g.beforeOutput(hi)
	h := g.w.H[hi]
	if h.W && len(g.w.Data) > 60000 {
		return
	}
	op := im.Op{K: "write", H: hi, Via: g.via()}
	na := 1
	switch g.cat(12, "write_na") {
	case 0:
		na = 0
	case 1, 2:
		na = 2
	case 3:
		na = 3
	}
	for i := 0; i < na; i++ {
		if g.pct(10, "write_num") {
			v := pick(g, []float64{0, 7, -7, 42, 123456, 0.5, -1.25, 3.75, 1e10, -0.125}, "write_numv")
			op.W = append(op.W, im.WArg{Num: &v})
		} else {
			op.W = append(op.W, im.WArg{S: g.payload(h)})
		}
	}
	g.emit(op)
}

func (g *gen) genLines(hi int) {
	h := g.w.H[hi]
	switch g.cat(6, "lines_k") {
	case 0:
		g.emit(im.Op{K: "lines", H: hi})
	case 1, 2, 3:
		if !h.HasIter {
			g.emit(im.Op{K: "lines", H: hi})
		}
		if h.HasIter {
			g.beforeInput(hi)
			g.emit(im.Op{K: "next", H: hi})
			if g.pct(50, "next_again") {
				g.emit(im.Op{K: "next", H: hi})
			}
		}
	default:
		if h.R {
			g.beforeInput(hi)
			g.emit(im.Op{K: "forlines", H: hi, Max: pick(g, []int{1, 1, 2, 3, 5, 100, 100000}, "for_max"), Via: g.via()})
		}
	}
}

func (g *gen) genSetvbuf(hi int) {
	op := im.Op{K: "setvbuf", H: hi, Buf: pick(g, []string{"no", "full", "full"}, "buf_mode")}
	if g.pct(50, "buf_size") {
		op.Size = iptr(pick(g, []int{1, 2, 16, 100, 1024, 4095, 4096, 4097, 8192, 20000}, "buf_sz"))
	}
	h := g.w.H[hi]
	if h.W && h.Last != im.Fresh && h.Last != im.LFlush && h.Last != im.LRead {
		// make it legal: flush first
		g.emit(im.Op{K: "flush", H: hi})
	}
	g.emit(op)
}

func (g *gen) genOpen() {
	mode := pick(g, g.p.modes, "mode")
	op := im.Op{K: "open", H: len(g.w.H), Mode: mode}
	if g.w.OpenCount() > 0 {
		// a second handle: a mode that leaves the file alone
		op.Mode = pick(g, []string{"r", "r", "rb", "r+", "a+", "a"}, "mode2")
	} else if mode == "r" && g.pct(15, "nomode") {
		op.Mode, op.NoMode = "", true
	} else if (mode == "r" || mode == "w") && g.pct(25, "open_via") {
		op.Mode, op.Via = "", map[string]string{"r": "io.input", "w": "io.output"}[mode]
	}
	if !g.emit(op) {
		return
	}
	h := g.w.H[op.H]
	if !h.Failed && h.W && g.pct(g.p.fullBuf, "open_fullbuf") {
		g.genSetvbuf(op.H)
	}
}

func (g *gen) genClosedOp(hi int) {
	h := g.w.H[hi]
	kinds := []string{"read", "write", "seek", "flush", "setvbuf", "close", "lines", "forlines"}
	if h.HasIter {
		kinds = append(kinds, "next", "next")
	}
	k := pick(g, kinds, "closed_kind")
	op := im.Op{K: k, H: hi}
	switch k {
	case "read":
		if g.pct(70, "closed_readfmt") {
			op.R = []im.RFmt{pick(g, []im.RFmt{{N: iptr(1)}, {N: iptr(0)}, {F: "*l"}, {F: "*a"}, {F: "*n"}}, "closed_fmt")}
		}
		op.Via = g.via()
	case "write":
		op.W = []im.WArg{{S: []im.Seg{{Pat: im.B("zz")}}}}
		op.Via = g.via()
	case "seek":
		switch g.cat(3, "closed_seek") {
		case 1:
			op.Wh, op.Off = "set", i64(0)
		case 2:
			op.Wh = "end"
		}
	case "setvbuf":
		op.Buf = pick(g, []string{"no", "full"}, "closed_buf")
	case "forlines":
		op.Max = 3
	case "flush", "close":
		op.Via = g.via()
	}
	g.emit(op)
}

func (g *gen) step() {
	var open, closed []int
	for i, h := range g.w.H {
		switch {
		case h.Failed:
		case h.Closed:
			closed = append(closed, i)
		default:
			open = append(open, i)
		}
	}
	p := g.p
	if len(open) == 0 {
		k := g.cat(100, "idle_k")
		switch {
		case k < 8 && len(closed) > 0:
			g.genClosedOp(pick(g, closed, "closed_h"))
		case k < 12 && g.w.Exists:
			g.emit(im.Op{K: "iolines"})
		default:
			g.genOpen()
		}
		return
	}
	hi := open[len(open)-1]
	if len(open) > 1 && g.pct(40, "other_h") {
		hi = pick(g, open, "open_h")
	}
	h := g.w.H[hi]
	wRead, wWrite := p.wRead, p.wWrite
	if !h.R {
		wRead = 1 + wRead/8
	}
	if !h.W {
		wWrite = 1 + wWrite/8
	}
	if g.w.OpenCount() > 1 {
		wWrite = 0
	}
	wSetvbuf := p.wSetvbuf
	wClosed := p.wClosed
	if len(closed) == 0 {
		wClosed = 0
	}
	wOpen2 := p.wOpen2
	if len(g.w.H) >= 6 {
		wOpen2 = 0
	}
	ws := []int{wRead, wWrite, p.wSeek, p.wFlush, wSetvbuf, p.wClose, p.wLines, wOpen2, wClosed, p.wIoLines}
	total := 0
	for _, x := range ws {
		total += x
	}
	k := g.cat(total, "op_k")
	idx := 0
	for k >= ws[idx] {
		k -= ws[idx]
		idx++
	}
	switch idx {
	case 0:
		g.genRead(hi)
	case 1:
		g.genWrite(hi)
	case 2:
		g.genSeek(hi)
	case 3:
		g.emit(im.Op{K: "flush", H: hi, Via: g.via()})
	case 4:
		g.genSetvbuf(hi)
	case 5:
		v := g.via()
		if v == "" && g.pct(8, "close0") {
			v = "io.close0"
		}
		g.emit(im.Op{K: "close", H: hi, Via: v})
	case 6:
		g.genLines(hi)
	case 7:
		if g.w.AnyDirty() {
			for _, i := range open {
				if g.w.H[i].Dirty {
					g.emit(im.Op{K: "flush", H: i})
				}
			}
		}
		g.genOpen()
	case 8:
		g.genClosedOp(pick(g, closed, "closed_h2"))
	case 9:
		if g.w.AnyDirty() {
			for _, i := range open {
				if g.w.H[i].Dirty {
					g.emit(im.Op{K: "flush", H: i})
				}
			}
		}
		g.emit(im.Op{K: "iolines"})
	}
}

func genCase(t *rapid.T, p *profile) *Case {
	g := &gen{t: t, p: p}
	c := &Case{}
	if g.pct(p.absent, "absent") {
		c.Absent = true
		g.w = im.NewWorld(false, nil)
	} else {
		c.Init, c.Trunc = g.genContent()
		g.w = im.NewWorld(true, c.InitBytes())
	}
	// rapid's state-machine driver: every step is a group of draws the shrinker can delete as a whole
	outer := t
	rounds := p.rounds
	if rounds < 1 {
		rounds = 1
	}
	for r := 0; r < rounds; r++ {
		t.Repeat(map[string]func(*rapid.T){
			"step": func(st *rapid.T) {
				g.t = st
				if len(g.ops) < p.maxOps {
					g.step()
				}
			},
		})
		g.t = outer
	}
	c.Ops = g.ops
	if c.Ops == nil {
		c.Ops = []im.Op{}
	}
	return c
}
