package lgen

import (
	"strconv"

	L "verif/luaref"
)

// ---- C02: call shapes

// vals returns n simple distinguishable argument expressions.
func (g *Gen) simpleVals(n int) []L.Expr {
	var out []L.Expr
	for i := 0; i < n; i++ {
		switch g.n(6, "argval") {
		case 0:
			out = append(out, &L.NilExpr{})
		case 1:
			out = append(out, str("a"+strconv.Itoa(i)))
		case 2:
			out = append(out, &L.FalseExpr{})
		default:
			out = append(out, num(float64(10*(i+1)+g.n(5, "argnum"))))
		}
	}
	return out
}

// calleeDef defines a callee of a drawn kind and returns (definition statements, call constructor, signature note).
// The callee logs what it received (fixed parameters, select('#', ...), the values of ..., the compat arg table)
// and returns nr of a fixed list of values.
func (g *Gen) calleeDef() ([]L.Stmt, func(args []L.Expr) *L.CallExpr, string, L.Expr, []L.Expr) {
	np := g.n(7, "np")
	vararg := g.n(2, "vararg") == 0
	nr := g.n(5, "nr")
	fname := g.fresh("cf")
	var params []string
	for i := 0; i < np; i++ {
		params = append(params, "q"+strconv.Itoa(i))
	}
	var body []L.Stmt
	log := []L.Expr{str(fname)}
	for _, p := range params {
		log = append(log, name(p))
	}
	usesDots := false
	if vararg {
		switch g.n(6, "varform") {
		case 0:
			log = append(log, call(name("select"), str("#"), &L.VarargExpr{}), &L.VarargExpr{})
			usesDots = true
		case 1:
			// compat arg table: the function never mentions ...
			log = append(log, field(name("arg"), "n"), idx(name("arg"), num(1)), idx(name("arg"), field(name("arg"), "n")))
			g.class("call:compat_arg")
		case 2:
			body = append(body, local1("pk", tbl(pos(&L.VarargExpr{}))))
			log = append(log, idx(name("pk"), num(1)), idx(name("pk"), num(3)), call(name("select"), str("#"), &L.VarargExpr{}))
			if g.n(2, "selneg") == 0 {
				// select with a negative index counts from the end; guarded so that it is in range
				log = append(log, bin("and", bin(">", call(name("select"), str("#"), &L.VarargExpr{}), num(0)), paren(call(name("select"), num(-1), &L.VarargExpr{}))))
				g.class("call:select_negative")
			}
			usesDots = true
		case 5:
			// one value of ... stored into locals that have other live locals above and below them
			body = append(body, local([]string{"va", "vb", "vc"}, str("A"), str("B"), str("C")), assign1(name("va"), paren(&L.VarargExpr{})), emit(str("va = (...)"), name("va"), name("vb"), name("vc")),
				assign1(name("vb"), &L.VarargExpr{}), emit(str("vb = ..."), name("va"), name("vb"), name("vc")),
				&L.AssignStmt{Targets: []L.Expr{name("vc"), name("va")}, Exprs: []L.Expr{&L.VarargExpr{}}}, emit(str("vc, va = ..."), name("va"), name("vb"), name("vc")))
			log = append(log, call(name("select"), str("#"), &L.VarargExpr{}))
			g.class("call:dots_into_inner_locals")
			usesDots = true
		case 3:
			// select(k, ...) for k inside, at and beyond the end of the list (beyond: no values, not an error)
			k := float64(1 + g.n(7, "selk"))
			log = append(log, call(name("select"), str("#"), call(name("select"), num(k), &L.VarargExpr{})), call(name("select"), num(k), &L.VarargExpr{}))
			g.class("call:select_k")
			usesDots = true
		default:
			log = append(log, paren(&L.VarargExpr{}))
			usesDots = true
		}
	}
	_ = usesDots
	body = append(body, emit(log...))
	rets := []L.Expr{str("r1"), num(2), &L.NilExpr{}, str("r4")}[:nr]
	if vararg && usesDots && g.n(3, "retdots") == 0 {
		rets = append(rets, &L.VarargExpr{})
		g.class("call:return_dots")
	}
	body = append(body, ret(rets...))
	fe := fn(params, vararg, blk(body...))
	sig := "p" + strconv.Itoa(np)
	if vararg {
		sig += "v"
	}
	sig += "r" + strconv.Itoa(nr)
	switch g.n(6, "calleekind") {
	case 5:
		// a callee that needs no register beyond its parameters: it only returns some of them (last one included)
		if np > 0 {
			sig += ":bare"
			var rs []L.Expr
			// any of the parameters, in any order: the first one (with the others live above it) as well as the last
			for i, n := 0, 1+g.n(3, "barerets"); i < n; i++ {
				rs = append(rs, name(params[g.n(np, "bareret")]))
			}
			if vararg && g.n(2, "baredots") == 0 {
				rs = append(rs, &L.VarargExpr{})
			}
			bare := fn(params, vararg, blk(ret(rs...)))
			g.class("call:bare_callee")
			return []L.Stmt{&L.LocalFuncStmt{Name: fname, Fn: bare}}, func(a []L.Expr) *L.CallExpr { return call(name(fname), a...) }, sig, name(fname), nil
		}
		fallthrough
	case 0, 1:
		sig += ":lua"
		return []L.Stmt{&L.LocalFuncStmt{Name: fname, Fn: fe}}, func(a []L.Expr) *L.CallExpr { return call(name(fname), a...) }, sig, name(fname), nil
	case 2:
		// method call sugar: obj:m(args) passes obj as the first argument
		sig += ":method"
		obj := g.fresh("ob")
		me := fn(append([]string{"self"}, params...), vararg, blk(append([]L.Stmt{emit(str("self"), bin("==", name("self"), name(obj)))}, body...)...))
		return []L.Stmt{local1(obj, tbl()), assign1(field(name(obj), "m"), me)},
			func(a []L.Expr) *L.CallExpr { return mcall(name(obj), "m", a...) }, sig, nil, nil
	case 3:
		// reached through __call: the object itself is prepended
		sig += ":__call"
		obj := g.fresh("co")
		// the handler must receive the called object itself (not its handler, not a copy)
		ce := fn(append([]string{"self"}, params...), vararg, blk(append([]L.Stmt{emit(str("callee"), call(name("type"), name("self")), bin("==", name("self"), name(obj)))}, body...)...))
		mk := call(name("setmetatable"), tbl(), tbl(kv(str("__call"), ce)))
		if g.n(3, "udcallee") == 0 {
			mk = call(name("newud"), tbl(kv(str("__call"), ce)))
			g.class("call:callable_userdata")
		}
		return []L.Stmt{local([]string{obj}), assign1(name(obj), mk)},
			func(a []L.Expr) *L.CallExpr { return call(name(obj), a...) }, sig, name(obj), nil
	default:
		// host (Go) callee returning the last r of its arguments
		sig = "host:r" + strconv.Itoa(nr)
		r := nr
		return nil, func(a []L.Expr) *L.CallExpr { return call(name("hostf"), append([]L.Expr{num(float64(r))}, a...)...) }, sig, name("hostf"), []L.Expr{num(float64(r))}
	}
}

// multiSource returns an expression that yields several values in last position: a call, ..., or unpack.
func (g *Gen) multiSource() (L.Expr, []L.Stmt) {
	switch g.n(4, "multisrc") {
	case 0:
		if g.fn.vararg {
			return &L.VarargExpr{}, nil
		}
		fallthrough
	case 1:
		n := g.n(4, "mscount")
		return call(paren(fn(nil, false, blk(ret(g.simpleVals(n)...))))), nil
	case 2:
		n := g.n(5, "upn")
		t := tbl()
		for i := 0; i < n; i++ {
			t.Fields = append(t.Fields, pos(num(float64(100+i))))
		}
		i, j := 1+g.n(2, "upi"), n-g.n(2, "upj")
		g.class("call:unpack_ij")
		return call(name("unpack"), t, num(float64(i)), num(float64(j))), nil
	default:
		return call(name("hostf"), num(float64(g.n(4, "hfr"))), str("h1"), str("h2"), str("h3")), nil
	}
}

func (g *Gen) tplCallShape() []L.Stmt {
	defs, mk, sig, fval, fpre := g.calleeDef()
	nargs := g.n(9, "nargs")
	args := g.simpleVals(nargs)
	if g.n(3, "lastmulti") == 0 {
		ms, pre := g.multiSource()
		defs = append(defs, pre...)
		args = append(args, ms)
		g.class("call:multi_in_last_arg")
	} else if nargs > 0 && g.n(4, "midmulti") == 0 {
		// a multi-value expression in a middle position is truncated to one value
		ms, _ := g.multiSource()
		args[0] = ms
		g.class("call:multi_in_middle_arg")
	}
	ce := mk(args)
	out := append([]L.Stmt{}, defs...)
	// the route by which the call is made: a call expression, or one of the host-side call paths
	if fval != nil {
		full := append(append([]L.Expr{fval}, fpre...), args...)
		route := g.n(12, "callroute")
		switch route {
		case 0:
			ce = call(name("pcall"), full...)
			sig += ":via_pcall"
		case 1:
			ce = call(name("hostcall"), full...)
			sig += ":via_hostcall"
		case 2:
			ce = call(name("hostpcall"), full...)
			sig += ":via_hostpcall"
		case 3:
			// as the iterator of a generic for: called with exactly (state, control)
			sig += ":as_for_iterator"
			g.class("callsig:" + sig)
			st, ctl := L.Expr(&L.NilExpr{}), L.Expr(&L.NilExpr{})
			if len(args) > 0 {
				st = paren(args[0])
			}
			if len(args) > 1 {
				ctl = paren(args[1])
			}
			if len(fpre) > 0 {
				st, ctl = fpre[0], str("ctl")
			}
			out = append(out, &L.GenForStmt{Names: []string{"i0", "i1", "i2"}, Exprs: []L.Expr{fval, st, ctl}, Body: blk(emit(str("iteration"), name("i0"), name("i1"), name("i2")), &L.BreakStmt{})}, emit(str("after for")))
			return []L.Stmt{&L.DoStmt{Body: blk(out...)}}
		case 4:
			// through select/unpack-free library callbacks that call back with fixed arguments
			sig += ":via_xpcall"
			// (arguments after the handler are legal and ignored in 5.1)
			ce = call(name("xpcall"), append([]L.Expr{fn(nil, g.fn.vararg, blk(ret(mk(args)))), name("tostring")}, g.simpleVals(g.n(4, "xpcallextra"))...)...)
		}
	}
	ctx := g.n(13, "resctx")
	g.class("callsig:" + sig + ":ctx" + strconv.Itoa(ctx))
	switch ctx {
	case 0:
		out = append(out, callStmt(ce))
	case 1:
		out = append(out, emit(ce))
	case 2:
		out = append(out, emit(paren(ce)))
	case 3:
		out = append(out, emit(ce, str("after")))
	case 4:
		n := 1 + g.n(5, "nlocals")
		var names []string
		var es []L.Expr
		for i := 0; i < n; i++ {
			names = append(names, "x"+strconv.Itoa(i))
			es = append(es, name("x"+strconv.Itoa(i)))
		}
		out = append(out, local(names, ce), emit(es...))
	case 5:
		out = append(out, local1("ct", tbl(pos(ce))), emit(idx(name("ct"), num(1)), idx(name("ct"), num(2)), idx(name("ct"), num(4)), idx(name("ct"), num(6)), idx(name("ct"), num(9))))
	case 6:
		out = append(out, local1("ct", tbl(pos(ce), pos(str("z")))), emit(call(name("select"), str("#"), call(name("unpack"), name("ct"), num(1), num(3))), idx(name("ct"), num(1)), idx(name("ct"), num(2)), idx(name("ct"), num(3))))
	case 7:
		// return list: all results in last position, truncated before
		w := fn(nil, g.fn.vararg, blk(ret(str("first"), ce)))
		if g.fn.vararg {
			// the wrapper has its own ...; pass the outer one through
			out = append(out, emit(call(paren(w), &L.VarargExpr{})))
		} else {
			out = append(out, emit(call(paren(w))))
		}
	case 8:
		w := fn(nil, g.fn.vararg, blk(ret(ce, str("last"))))
		if g.fn.vararg {
			out = append(out, emit(call(paren(w), &L.VarargExpr{})))
		} else {
			out = append(out, emit(call(paren(w))))
		}
	case 11, 12:
		// a proper tail call: the call is all the wrapper returns
		w := fn(nil, g.fn.vararg, blk(ret(ce)))
		if ctx == 12 {
			// ... from a wrapper that has parameters and locals of its own below the call
			w = fn([]string{"w1", "w2"}, g.fn.vararg, blk(local1("w3", bin("..", str("w"), str("3"))), ret(ce)))
		}
		g.class("call:pure_tail_call")
		if g.fn.vararg {
			out = append(out, emit(call(paren(w), &L.VarargExpr{})))
		} else {
			out = append(out, emit(call(paren(w), num(1), num(2))))
		}
	case 9:
		// multiple assignment to existing targets of different kinds
		out = append(out, local([]string{"ma", "mt"}, &L.NilExpr{}, tbl()),
			&L.AssignStmt{Targets: []L.Expr{name("ma"), field(name("mt"), "f"), name("GA")}, Exprs: []L.Expr{ce}},
			emit(name("ma"), field(name("mt"), "f"), name("GA")))
	default:
		// as the only argument of another call, and as a non-last argument
		out = append(out, emit(call(name("select"), str("#"), ce), call(name("select"), str("#"), ce, &L.NilExpr{})))
	}
	return []L.Stmt{&L.DoStmt{Body: blk(out...)}}
}

// tplTailCalls: deep proper tail calls in several forms; the depth exceeds every call-stack size in use.
func (g *Gen) tplTailCalls() []L.Stmt {
	depth := float64(300 + g.n(3000, "taildepth"))
	f, h := g.fresh("tc"), g.fresh("tc")
	g.class("tail:deep")
	switch g.n(6, "tailform") {
	case 0:
		// self tail recursion with an accumulator
		fe := fn([]string{"n", "acc"}, false, blk(ifs(bin("==", name("n"), num(0)), blk(ret(name("acc"))), nil), ret(call(name(f), bin("-", name("n"), num(1)), bin("+", name("acc"), num(2))))))
		return []L.Stmt{&L.LocalFuncStmt{Name: f, Fn: fe}, emit(call(name(f), num(depth), num(0)))}
	case 1:
		// mutual recursion
		fe := fn([]string{"n"}, false, blk(ifs(bin("<=", name("n"), num(0)), blk(ret(str("even"))), nil), ret(call(name(h), bin("-", name("n"), num(1))))))
		he := fn([]string{"n"}, false, blk(ifs(bin("<=", name("n"), num(0)), blk(ret(str("odd"))), nil), ret(call(name(f), bin("-", name("n"), num(1))))))
		return []L.Stmt{local([]string{f, h}), assign1(name(f), fe), assign1(name(h), he), emit(call(name(f), num(depth)))}
	case 2:
		// varargs carried through the tail calls
		fe := fn([]string{"n"}, true, blk(ifs(bin("==", name("n"), num(0)), blk(ret(call(name("select"), str("#"), &L.VarargExpr{}), &L.VarargExpr{})), nil), ret(call(name(f), bin("-", name("n"), num(1)), &L.VarargExpr{}))))
		return []L.Stmt{&L.LocalFuncStmt{Name: f, Fn: fe}, emit(call(name(f), num(depth), str("a"), &L.NilExpr{}, str("c")))}
	case 3:
		// through __call
		g.class("tail:__call")
		ce := fn([]string{"self", "n"}, false, blk(ifs(bin("==", name("n"), num(0)), blk(ret(str("done"), name("n"))), nil), ret(call(name("self"), bin("-", name("n"), num(1))))))
		return []L.Stmt{local1(f, call(name("setmetatable"), tbl(), tbl(kv(str("__call"), ce)))), emit(call(name(f), num(depth)))}
	case 4:
		// ending in a host function
		g.class("tail:into_host")
		fe := fn([]string{"n"}, false, blk(ifs(bin("==", name("n"), num(0)), blk(ret(call(name("hostf"), num(2), str("x"), str("y"), str("z")))), nil), ret(call(name(f), bin("-", name("n"), num(1))))))
		return []L.Stmt{&L.LocalFuncStmt{Name: f, Fn: fe}, emit(call(name(f), num(depth)))}
	default:
		// inside a coroutine
		g.class("tail:in_coroutine")
		fe := fn([]string{"n"}, false, blk(ifs(bin("==", name("n"), num(0)), blk(ret(call(field(name("coroutine"), "yield"), str("bottom")))), nil), ret(call(name(f), bin("-", name("n"), num(1))))))
		co := g.fresh("co")
		return []L.Stmt{&L.LocalFuncStmt{Name: f, Fn: fe}, local1(co, call(field(name("coroutine"), "create"), name(f))),
			emit(call(field(name("coroutine"), "resume"), name(co), num(depth))), emit(call(field(name("coroutine"), "resume"), name(co), str("back")))}
	}
}

// Calls is the profile of C02.
func Calls() *Profile {
	return &Profile{Name: "calls", MaxStmts: 12, MaxDepth: 3, Wild: 6, WildOpen: 0, Stress: 2, TemplatePc: 55,
		Templates: []func(g *Gen) []L.Stmt{(*Gen).tplCallShape, (*Gen).tplCallShape, (*Gen).tplCallShape, (*Gen).tplTailCalls}}
}
