// Package c12: limits surface as catchable errors; below them Options never change behaviour.
package c12

import (
	"context"
	"fmt"
	"regexp"
	"strings"
	"testing"

	lua "github.com/yuin/gopher-lua"
	"pgregory.net/rapid"

	"verif/e1"
	"verif/lgen"
	"verif/vf"
)

func TestMain(m *testing.M)   { vf.Main(m) }
func TestReplay(t *testing.T) { vf.Replay(t) }

// ---------------------------------------------------------------------------------------------
// (a) one program under several configurations

type Config struct {
	CallStackSize    int  `json:"call_stack_size"`
	MinimizeStack    bool `json:"minimize_stack_memory"`
	RegistrySize     int  `json:"registry_size"`
	RegistryMaxSize  int  `json:"registry_max_size"`
	RegistryGrowStep int  `json:"registry_grow_step"`
	Context          bool `json:"undone_context_attached"`
	GoStackTrace     bool `json:"include_go_stack_trace,omitempty"`
}

func (c Config) options() lua.Options {
	return lua.Options{CallStackSize: c.CallStackSize, MinimizeStackMemory: c.MinimizeStack, RegistrySize: c.RegistrySize,
		RegistryMaxSize: c.RegistryMaxSize, RegistryGrowStep: c.RegistryGrowStep, IncludeGoStackTrace: c.GoStackTrace}
}

type EquivCase struct {
	Src     string   `json:"src"`
	Profile string   `json:"profile"`
	Configs []Config `json:"configs"`
}

func runWith(src string, c Config) *e1.GOutcome {
	o := &e1.GOpts{Options: c.options()}
	if c.Context {
		ctx, cancel := context.WithCancel(context.Background())
		defer cancel()
		o.Ctx = ctx
	}
	return e1.RunGopher(src, o)
}

func overflowText(s string) bool {
	return strings.Contains(s, "stack overflow") || strings.Contains(s, "registry overflow") || strings.Contains(s, "callstack overflow")
}

var chkEquiv = vf.Register("options_equivalence", func(k *vf.C, c *EquivCase) error {
	// the reference run bounds the program (steps, events) so that a diverging configuration cannot hang the check
	r := e1.RunRef(c.Src, nil)
	if r.ParseErr != nil || r.Unspecified != "" {
		k.Discard("reference: unspecified or over budget")
		return nil
	}
	base := e1.RunGopher(c.Src, e1.BudgetFor(r))
	if base.Panic != "" || base.Overrun != "" {
		k.Discard("baseline run does not finish cleanly (subject of C01/C05)")
		return nil
	}
	if strings.Contains(c.Src, "hoststackoverflow(") || strings.Contains(c.Src, "hostregoverflow(") {
		// (generated coroutine programs may die of an overflow on purpose: the text of that error differs between the two
		// call-stack implementations; decided from the source, not from what the implementation under test did)
		k.Discard("the program runs into a limit on purpose: not within the limits")
		return nil
	}
	t0 := maskAddrs(strings.Join(e1.GTraceStrings(base.Trace), "\n"))
	res0 := maskAddrs(strings.Join(e1.GTraceStrings([]e1.GEvent{{Kind: "results", Vals: base.Results}}), "\n"))
	used := 0
	for _, cfg := range c.Configs {
		g := runWith(c.Src, cfg)
		if g.Panic != "" {
			return fmt.Errorf("under %+v a Go panic escaped: %s", cfg, g.Panic)
		}
		smaller := cfg.CallStackSize < 256 || (cfg.RegistryMaxSize == 0 && cfg.RegistrySize < 256*20) || (cfg.RegistryMaxSize != 0 && cfg.RegistryMaxSize < 256*20)
		if smaller && (overflowText(g.ErrText) || traceHasOverflow(g)) && !overflowText(base.ErrText) {
			k.Class("config_limit_reached")
			continue // the program does not stay within this configuration's limits
		}
		used++
		t := maskAddrs(strings.Join(e1.GTraceStrings(g.Trace), "\n"))
		if t != t0 {
			i := firstDiff(t0, t)
			return fmt.Errorf("under %+v the trace differs from the trace under default options (first difference at event %d: default %q, here %q; error here: %s)", cfg, i, lineAt(t0, i), lineAt(t, i), clip(firstLine(g.ErrText), 120))
		}
		if g.Failed != base.Failed {
			return fmt.Errorf("under %+v failed=%v (%s), under default options failed=%v (%s)", cfg, g.Failed, clip(g.ErrText, 150), base.Failed, clip(base.ErrText, 150))
		}
		if !g.Failed && maskAddrs(strings.Join(e1.GTraceStrings([]e1.GEvent{{Kind: "results", Vals: g.Results}}), "\n")) != res0 {
			return fmt.Errorf("under %+v the chunk results differ", cfg)
		}
		if g.Failed && maskAddrs(firstLine(g.ErrText)) != maskAddrs(firstLine(base.ErrText)) {
			return fmt.Errorf("under %+v the error is %q, under default options %q", cfg, firstLine(g.ErrText), firstLine(base.ErrText))
		}
	}
	k.ClassN("configs_compared", used)
	k.Class("profile:" + c.Profile)
	if used >= 2 && r.In.Stat.MaxCallDepth >= 3 {
		k.Nontrivial(vf.Hash(c.Src, fmt.Sprint(c.Configs)))
		k.Sample(c.Profile, 1, map[string]any{"src": clip(c.Src, 1200), "configs": c.Configs})
	}
	return nil
})

func traceHasOverflow(g *e1.GOutcome) bool {
	for _, e := range g.Trace {
		for _, v := range e.Vals {
			if s, ok := v.(lua.LString); ok && overflowText(string(s)) {
				return true
			}
		}
	}
	return false
}

var addrRe = regexp.MustCompile(`(table|userdata|function|thread|channel): 0x[0-9a-f]+`)

// maskAddrs hides printed addresses (tostring of reference values), which differ from run to run.
func maskAddrs(s string) string { return addrRe.ReplaceAllString(s, "$1: ADDR") }

func firstLine(s string) string {
	if i := strings.IndexByte(s, '\n'); i >= 0 {
		return s[:i]
	}
	return s
}

func lineAt(t string, i int) string {
	l := strings.Split(t, "\n")
	if i < len(l) {
		return clip(l[i], 160)
	}
	return "<end of trace>"
}

func firstDiff(a, b string) int {
	x, y := strings.Split(a, "\n"), strings.Split(b, "\n")
	for i := 0; i < len(x) && i < len(y); i++ {
		if x[i] != y[i] {
			return i
		}
	}
	if len(x) < len(y) {
		return len(x)
	}
	return len(y)
}

func clip(s string, n int) string {
	if len(s) > n {
		return s[:n] + "..."
	}
	return s
}

func genConfig(rt *rapid.T) Config {
	c := Config{
		CallStackSize:    rapid.SampledFrom([]int{40, 63, 64, 65, 71, 72, 73, 128, 255, 256, 257, 1000}).Draw(rt, "css"),
		MinimizeStack:    rapid.Bool().Draw(rt, "min"),
		RegistrySize:     rapid.SampledFrom([]int{1500, 2048, 4096, 4097, 5120, 5121, 10000}).Draw(rt, "rs"),
		RegistryGrowStep: rapid.SampledFrom([]int{0, 1, 7, 32, 33}).Draw(rt, "gs"),
		Context:          rapid.Bool().Draw(rt, "ctx"),
		GoStackTrace:     rapid.IntRange(0, 3).Draw(rt, "gotrace") == 0,
	}
	switch rapid.IntRange(0, 4).Draw(rt, "maxkind") {
	case 0:
		c.RegistryMaxSize = 0
	case 1:
		c.RegistryMaxSize = c.RegistrySize
	case 2:
		c.RegistryMaxSize = c.RegistrySize + 1
	case 3:
		c.RegistryMaxSize = c.RegistrySize + 33
	default:
		c.RegistryMaxSize = 100000
		c.RegistrySize = rapid.SampledFrom([]int{64, 128, 129, 300}).Draw(rt, "smallrs") // forces growth during the run
	}
	return c
}

func TestOptionsEquivalence(t *testing.T) {
	profiles := []*lgen.Profile{lgen.Core(), lgen.Calls(), lgen.Closures(), lgen.Coroutines(), lgen.Meta()}
	vf.Rapid(t, func(rt *rapid.T) {
		p := profiles[rapid.IntRange(0, len(profiles)-1).Draw(rt, "profile")]
		g := lgen.New(rt, p)
		src := lgen.Print(g.Program(), &lgen.Layout{})
		var cfgs []Config
		for i := 0; i < 4; i++ {
			cfgs = append(cfgs, genConfig(rt))
		}
		chkEquiv.Run(rt, &EquivCase{Src: src, Profile: p.Name, Configs: cfgs})
	})
}

// ---------------------------------------------------------------------------------------------
// (b) straddling the limits

type LimitCase struct {
	Kind   string `json:"kind"`
	Config Config `json:"config"`
}

// programs parameterised by N; each returns a value that is known when it succeeds
var limitKinds = map[string]struct {
	src    string // uses N
	expect func(n int) string
	limit  func(c Config) int // where success turns into failure, roughly
	reg    bool               // limited by the registry (else by the call stack)
}{
	"recursion": {`local function r(n) if n == 0 then return 0 end return 1 + r(n - 1) end return r(N)`,
		func(n int) string { return fmt.Sprint(n) }, func(c Config) int { return c.CallStackSize }, false},
	"mutual_recursion_pcall": {`local a, b function a(n) if n == 0 then return 0 end local ok, v = pcall(b, n - 1) if not ok then error(v, 0) end return v + 1 end function b(n) if n == 0 then return 0 end return 1 + a(n - 1) end return a(N)`,
		func(n int) string { return fmt.Sprint(n) }, func(c Config) int { return c.CallStackSize * 2 / 3 }, false},
	"metamethod_recursion": {`local t = setmetatable({}, {__index = function(t, k) if k == 0 then return 0 end return 1 + t[k - 1] end}) return t[N]`,
		func(n int) string { return fmt.Sprint(n) }, func(c Config) int { return c.CallStackSize }, false},
	"coroutine_recursion": {`local function r(n) if n == 0 then return 0 end return 1 + r(n - 1) end local ok, v = coroutine.resume(coroutine.create(r), N) if not ok then error(v, 0) end return v`,
		func(n int) string { return fmt.Sprint(n) }, func(c Config) int { return c.CallStackSize }, false},
	"unpack_args": {`local t = {} for i = 1, N do t[i] = i end local function f(...) return select('#', ...) end return f(unpack(t, 1, N))`,
		func(n int) string { return fmt.Sprint(n) }, func(c Config) int { return regLimit(c) / 2 }, true},
	"select_unpack": {`local t = {} for i = 1, N do t[i] = i end return (select('#', unpack(t)))`,
		func(n int) string { return fmt.Sprint(n) }, func(c Config) int { return regLimit(c) }, true},
	"vararg_forward": {`local t = {} for i = 1, N do t[i] = i end local function g(...) return select('#', ...) end local function f(...) return g(...) end return (f(unpack(t)))`,
		func(n int) string { return fmt.Sprint(n) }, func(c Config) int { return regLimit(c) / 3 }, true},
	"table_from_varargs": {`local t = {} for i = 1, N do t[i] = i end local u = {unpack(t)} return #u`,
		func(n int) string { return fmt.Sprint(n) }, func(c Config) int { return regLimit(c) }, true},
	// the same limits reached inside a coroutine, a wrapped coroutine and an xpcall with a handler: the failure follows
	// the ordinary protocol of that construct (resume returns false and the coroutine is dead; wrap and xpcall deliver it)
	"unpack_in_coroutine": {`local t = {} for i = 1, N do t[i] = i end local co = coroutine.create(function() return select('#', unpack(t)) end)
local pok, ok, v = pcall(coroutine.resume, co) if not pok then error("coroutine.resume raised instead of returning false", 0) end
if coroutine.status(co) ~= "dead" then error("the coroutine is " .. coroutine.status(co) .. " after its body ended", 0) end
if not ok then error(v, 0) end return v`,
		func(n int) string { return fmt.Sprint(n) }, func(c Config) int { return regLimit(c) }, true},
	"unpack_in_wrap": {`local t = {} for i = 1, N do t[i] = i end local w = coroutine.wrap(function() return select('#', unpack(t)) end)
local ok, v = pcall(w) if not ok then local again = pcall(w) if again then error("a failed wrapped coroutine ran again", 0) end error(v, 0) end return v`,
		func(n int) string { return fmt.Sprint(n) }, func(c Config) int { return regLimit(c) }, true},
	"unpack_in_xpcall": {`local t = {} for i = 1, N do t[i] = i end local ok, v = xpcall(function() return select('#', unpack(t)) end, function(m) return m end)
if not ok then error(v, 0) end return v`,
		func(n int) string { return fmt.Sprint(n) }, func(c Config) int { return regLimit(c) }, true},
	"recursion_in_xpcall": {`local function r(n) if n == 0 then return 0 end return 1 + r(n - 1) end local ok, v = xpcall(function() return r(N) end, function(m) return m end)
if not ok then error(v, 0) end return v`,
		func(n int) string { return fmt.Sprint(n) }, func(c Config) int { return c.CallStackSize }, false},
	// every level of the recursion leaves a closure over one of its locals behind; after the overflow was caught (by xpcall,
	// whose handler cannot run on the full stack, and by pcall) each closure still owns its variable
	"closures_survive_overflow_in_xpcall": {`local keep = {} local function r(n) local mine = n * 10 keep[#keep + 1] = function() return mine end if n == 0 then return 0 end return 1 + r(n - 1) end
local ok, v = xpcall(function() return r(N) end, function(m) return m end)
local function churn(a, b, c, d, e, f) local t = {a, b, c, d, e, f} return #t end churn(1, 2, 3, 4, 5, 6)
for i = 1, math.min(#keep, 60) do local got = keep[i]() if got ~= (N - i + 1) * 10 then error("closure " .. i .. " left behind by the recursion returns " .. tostring(got), 0) end end
if not ok then error(v, 0) end return v`,
		func(n int) string { return fmt.Sprint(n) }, func(c Config) int { return c.CallStackSize }, false},
	"closures_survive_overflow_in_pcall": {`local keep = {} local function r(n) local mine = n * 10 keep[#keep + 1] = function() return mine end if n == 0 then return 0 end return 1 + r(n - 1) end
local ok, v = pcall(r, N)
local function churn(a, b, c, d, e, f) local t = {a, b, c, d, e, f} return #t end churn(1, 2, 3, 4, 5, 6)
for i = 1, math.min(#keep, 60) do local got = keep[i]() if got ~= (N - i + 1) * 10 then error("closure " .. i .. " left behind by the recursion returns " .. tostring(got), 0) end end
if not ok then error(v, 0) end return v`,
		func(n int) string { return fmt.Sprint(n) }, func(c Config) int { return c.CallStackSize }, false},
	"recursion_in_wrap": {`local function r(n) if n == 0 then return 0 end return 1 + r(n - 1) end local co = coroutine.create(r)
local pok, ok, v = pcall(coroutine.resume, co, N) if not pok then error("coroutine.resume raised instead of returning false", 0) end
if coroutine.status(co) ~= "dead" then error("the coroutine is " .. coroutine.status(co) .. " after its body ended", 0) end
if not ok then error(v, 0) end return v`,
		func(n int) string { return fmt.Sprint(n) }, func(c Config) int { return c.CallStackSize }, false},
	// the registry runs out while the frame of a function with many locals is laid out - for an ordinary call and for a
	// tail call (which re-uses the caller's frame record)
	"call_into_big_frame": {`local function big() local ` + bigLocals + ` = 1 return l0 end
local function fill(n) if n == 0 then local r = big() return r end local a, b, c, d, e, f, g, h = 1, 2, 3, 4, 5, 6, 7, 8 return 1 + fill(n - 1) end return fill(N)`,
		func(n int) string { return fmt.Sprint(n + 1) }, func(c Config) int { return (regLimit(c) - 150) / 10 }, true},
	"tail_call_into_big_frame": {`local function big() local ` + bigLocals + ` = 1 return l0 end
local function fill(n) if n == 0 then return big() end local a, b, c, d, e, f, g, h = 1, 2, 3, 4, 5, 6, 7, 8 return 1 + fill(n - 1) end return fill(N)`,
		func(n int) string { return fmt.Sprint(n + 1) }, func(c Config) int { return (regLimit(c) - 150) / 10 }, true},
	"concat_many": {`local t = {} for i = 1, N do t[i] = "x" end return #table.concat(t)`,
		func(n int) string { return fmt.Sprint(n) }, func(c Config) int { return regLimit(c) / 2 }, true},
}

var bigLocals = func() string {
	var p []string
	for i := 0; i < 150; i++ {
		p = append(p, fmt.Sprintf("l%d", i))
	}
	return strings.Join(p, ", ")
}()

func regLimit(c Config) int {
	if c.RegistryMaxSize > c.RegistrySize {
		return c.RegistryMaxSize
	}
	if c.RegistrySize == 0 {
		return 256 * 20
	}
	return c.RegistrySize
}

const postCheck = `
local function depth(n) if n == 0 then return 0 end return 1 + depth(n - 1) end
local fs = {} for i = 1, 3 do local v = i * 10 fs[i] = function() v = v + 1 return v end end
local t = {} for i = 1, 20 do t[i] = i * i end table.sort(t, function(a, b) return a > b end)
local co = coroutine.wrap(function(a) local b = coroutine.yield(a + 1) return a + b end)
return depth(3), fs[1](), fs[1](), fs[3](), t[1], #t, co(1), co(5), select('#', unpack(t)), pcall(error, "e")
`

func resultString(L *lua.LState, base int) string {
	var p []string
	for i := base + 1; i <= L.GetTop(); i++ {
		p = append(p, L.Get(i).String())
	}
	L.SetTop(base)
	return strings.Join(p, ",")
}

// attempt runs kind(N) protected in L; returns ("ok", value) | ("overflow", msg) | ("other", msg)
func attempt(L *lua.LState, src string, n int) (kind, val string, panicked string) {
	defer func() {
		if r := recover(); r != nil {
			panicked = fmt.Sprint(r)
		}
	}()
	base := L.GetTop()
	fn, err := L.LoadString(strings.ReplaceAll(src, "N", fmt.Sprint(n)))
	if err != nil {
		return "other", "load: " + err.Error(), ""
	}
	L.Push(fn)
	if err := L.PCall(0, lua.MultRet, nil); err != nil {
		L.SetTop(base)
		msg := firstLine(err.Error())
		if overflowText(msg) {
			return "overflow", msg, ""
		}
		return "other", msg, ""
	}
	return "ok", resultString(L, base), ""
}

var expectedPost string

func postExpected() string {
	if expectedPost == "" {
		L := lua.NewState()
		defer L.Close()
		_, v, _ := attempt(L, postCheck, 0)
		expectedPost = v
	}
	return expectedPost
}

var chkLimit = vf.Register("limit_straddle", func(k *vf.C, c *LimitCase) error {
	lk := limitKinds[c.Kind]
	lim := lk.limit(c.Config)
	if lim <= 0 {
		lim = 256
	}
	L := lua.NewState(c.Config.options())
	defer func() {
		defer func() { recover() }()
		L.Close()
	}()
	// far below, a window around the limit, far above; several passes in the same state (segment pool churn)
	var ns []int
	for _, d := range []int{lim / 4, lim / 2} {
		if d > 0 {
			ns = append(ns, d)
		}
	}
	for d := lim - 12; d <= lim+12; d++ {
		if d > 0 {
			ns = append(ns, d)
		}
	}
	ns = append(ns, lim*2+5, lim*3+1)
	firstFail := -1
	okBelow, failAbove, cycles := 0, 0, 0
	for pass := 0; pass < 3; pass++ {
		for _, n := range ns {
			kind, val, pan := attempt(L, lk.src, n)
			k.Class("attempts")
			if pan != "" {
				return fmt.Errorf("%s N=%d under %+v: a Go panic escaped PCall: %s", c.Kind, n, c.Config, pan)
			}
			switch kind {
			case "ok":
				if val != lk.expect(n) {
					return fmt.Errorf("%s N=%d under %+v: succeeded with %q, expected %q", c.Kind, n, c.Config, val, lk.expect(n))
				}
				// (raising "registry overflow" on a full registry force-grows it by one slot so that the message can be
				// pushed - twice when an xpcall handler cannot be pushed either -, so in a state that is used again the
				// limit creeps up by that much per caught overflow)
				slack := 1
				if lk.reg {
					slack += 2 * cycles
				}
				if firstFail >= 0 && n > firstFail+slack && pass == 0 {
					return fmt.Errorf("%s under %+v: N=%d succeeds although the smaller N=%d overflowed", c.Kind, c.Config, n, firstFail)
				}
				if n <= lim/2 {
					okBelow++
				}
			case "overflow":
				if firstFail < 0 || n < firstFail {
					firstFail = n
				}
				if n <= lim/2 && c.Kind != "mutual_recursion_pcall" {
					return fmt.Errorf("%s N=%d under %+v: overflow (%s) although the limit is about %d", c.Kind, n, c.Config, val, lim)
				}
				if n >= lim*2 {
					failAbove++
				}
				cycles++
				// the state keeps working
				pk, pv, pp := attempt(L, postCheck, 0)
				if pp != "" || pk != "ok" || pv != postExpected() {
					return fmt.Errorf("%s N=%d under %+v: after the caught overflow the state misbehaves: %s %q %s (expected %q)", c.Kind, n, c.Config, pk, pv, pp, postExpected())
				}
			default:
				return fmt.Errorf("%s N=%d under %+v: failed with something that is not a limit error: %s", c.Kind, n, c.Config, val)
			}
		}
	}
	if lk.reg && c.Config.RegistryMaxSize == 0 && c.Config.RegistrySize > 0 || !lk.reg {
		// with a hard limit, far above must fail
		if failAbove == 0 {
			return fmt.Errorf("%s under %+v: N=%d far above the limit (%d) did not overflow", c.Kind, c.Config, lim*3+1, lim)
		}
	}
	if okBelow > 0 && cycles > 0 {
		k.Nontrivial(vf.Hash(c.Kind, fmt.Sprint(c.Config)))
		k.Sample(c.Kind, 1, map[string]any{"kind": c.Kind, "config": c.Config, "first_overflow_at": firstFail, "nominal_limit": lim, "overflow_recover_cycles": cycles})
	}
	k.Class("kind:" + c.Kind)
	return nil
})

func TestLimitStraddle(t *testing.T) {
	var kinds []string
	for n := range limitKinds {
		kinds = append(kinds, n)
	}
	sortStrings(kinds)
	vf.Rapid(t, func(rt *rapid.T) {
		kind := rapid.SampledFrom(kinds).Draw(rt, "kind")
		c := Config{
			CallStackSize: rapid.SampledFrom([]int{8, 9, 15, 16, 17, 23, 24, 25, 64, 100, 256}).Draw(rt, "css"),
			MinimizeStack: rapid.Bool().Draw(rt, "min"),
			RegistrySize:  rapid.SampledFrom([]int{600, 1000, 1024, 1025, 2000}).Draw(rt, "rs"),
		}
		if limitKinds[kind].reg {
			c.CallStackSize = 256
			switch rapid.IntRange(0, 2).Draw(rt, "maxkind") {
			case 1:
				c.RegistryMaxSize = c.RegistrySize + rapid.SampledFrom([]int{1, 31, 32, 33, 500}).Draw(rt, "extra")
				c.RegistryGrowStep = rapid.SampledFrom([]int{1, 7, 32}).Draw(rt, "gs")
			case 2:
				c.RegistryMaxSize = c.RegistrySize
			}
		} else {
			c.RegistrySize = 256 * 40
		}
		chkLimit.Run(rt, &LimitCase{Kind: kind, Config: c})
	})
}

func sortStrings(s []string) {
	for i := 1; i < len(s); i++ {
		for j := i; j > 0 && s[j] < s[j-1]; j-- {
			s[j], s[j-1] = s[j-1], s[j]
		}
	}
}

// ---------------------------------------------------------------------------------------------
// growth alignment: with a growable registry every way of laying out a frame is driven across every growth boundary at
// every alignment (depth 1..D, 0..5 extra arguments): below the limit nothing may depend on where the boundaries fall

type GrowCase struct {
	Kind   string `json:"kind"`
	Config Config `json:"config"`
	Depth  int    `json:"max_depth"`
}

var growKinds = map[string]struct {
	def    string // defines g
	call   string // %d depth, %s extra arguments (", 1, 2" or "")
	expect func(d, k int) string
}{
	"vararg_recursion":  {`local function g(d, ...) if d == 0 then return select('#', ...) end return (g(d - 1, ...)) end`, `return g(%d%s)`, func(d, k int) string { return fmt.Sprint(k) }},
	"vararg_with_named": {`local function g(d, a, b, ...) local x, y = a, b if d == 0 then return select('#', ...) end return (g(d - 1, x, y, ...)) end`, `return g(%d, 'a', 'b'%s)`, func(d, k int) string { return fmt.Sprint(k) }},
	"compat_arg_table":  {`local function g(d, ...) if d == 0 then return arg.n end return (g(d - 1, unpack(arg))) end`, `return g(%d%s)`, func(d, k int) string { return fmt.Sprint(k) }},
	"plain_with_locals": {`local function g(d, a) local p, q, r = d, a, d if d == 0 then return a end return (g(d - 1, a)) end`, `return g(%d, select('#'%s))`, func(d, k int) string { return fmt.Sprint(k) }},
	"callable_object":   {`local g = setmetatable({}, {__call = function(self, d, ...) if d == 0 then return select('#', ...) end return (self(d - 1, ...)) end})`, `return g(%d%s)`, func(d, k int) string { return fmt.Sprint(k) }},
	"method_calls":      {`local o = {} function o:g(d, ...) if d == 0 then return select('#', ...) end return (self:g(d - 1, ...)) end`, `return o:g(%d%s)`, func(d, k int) string { return fmt.Sprint(k) }},
	"through_pcall":     {`local function g(d, ...) if d == 0 then return select('#', ...) end return select(2, pcall(g, d - 1, ...)) end`, `return g(%d%s)`, func(d, k int) string { return fmt.Sprint(k) }},
	"tail_then_call":    {`local h local function g(d, ...) if d == 0 then return select('#', ...) end return h(d, ...) end h = function(d, ...) local r = g(d - 1, ...) return r end`, `return g(%d%s)`, func(d, k int) string { return fmt.Sprint(k) }},
	"varargs_in_table":  {`local function g(d, ...) local t = {...} if d == 0 then return #t end return (g(d - 1, unpack(t))) end`, `return g(%d%s)`, func(d, k int) string { return fmt.Sprint(k) }},
	"coroutine_body":    {`local function g(d, ...) if d == 0 then return select('#', ...) end return (g(d - 1, ...)) end`, `return select(2, coroutine.resume(coroutine.create(g), %d%s))`, func(d, k int) string { return fmt.Sprint(k) }},
}

var chkGrow = vf.Register("growth_alignment", func(k *vf.C, c *GrowCase) error {
	gk := growKinds[c.Kind]
	L := lua.NewState(c.Config.options())
	defer func() {
		defer func() { recover() }()
		L.Close()
	}()
	n := 0
	for d := 1; d <= c.Depth; d++ {
		for extra := 0; extra <= 5; extra++ {
			args := ""
			for i := 1; i <= extra; i++ {
				args += fmt.Sprintf(", %d", i)
			}
			src := gk.def + "\n" + fmt.Sprintf(gk.call, d, args)
			kind, val, pan := attempt(L, src, 0)
			n++
			if pan != "" {
				return fmt.Errorf("%s depth %d with %d extra arguments under %+v: a Go panic escaped PCall: %s", c.Kind, d, extra, c.Config, pan)
			}
			if kind != "ok" || val != gk.expect(d, extra) {
				return fmt.Errorf("%s depth %d with %d extra arguments under %+v, far below the limits: %s %q (expected %q)", c.Kind, d, extra, c.Config, kind, val, gk.expect(d, extra))
			}
		}
	}
	k.EvalN(n - 1)
	k.Class("kind:" + c.Kind)
	k.Nontrivial(vf.Hash(c.Kind, fmt.Sprint(c.Config)))
	k.Sample(c.Kind, 1, map[string]any{"kind": c.Kind, "config": c.Config, "calls": n})
	return nil
})

func TestGrowthAlignment(t *testing.T) {
	var kinds []string
	for n := range growKinds {
		kinds = append(kinds, n)
	}
	sortStrings(kinds)
	vf.Rapid(t, func(rt *rapid.T) {
		c := &GrowCase{Kind: rapid.SampledFrom(kinds).Draw(rt, "kind"), Depth: 70,
			Config: Config{CallStackSize: 256, MinimizeStack: rapid.Bool().Draw(rt, "min"),
				RegistrySize:     rapid.SampledFrom([]int{128, 129, 160, 200, 255, 256, 257}).Draw(rt, "rs"),
				RegistryMaxSize:  8192,
				RegistryGrowStep: rapid.SampledFrom([]int{1, 2, 7, 31, 32, 33, 100}).Draw(rt, "gs")}}
		chkGrow.Run(rt, c)
	})
}
