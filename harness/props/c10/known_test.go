package c10

import (
	"encoding/json"
	"testing"

	"verif/vf"
)

// TestKnownFindings re-runs the recorded example of every open C10 finding without the generator's exclusion and
// logs whether it still fails (a finding that no longer fails should be marked fixed; its exclusion is then dropped).
func TestKnownFindings(t *testing.T) {
	noExclusions = true
	defer func() { noExclusions = false }()
	k := vf.Col("known_findings")
	for _, f := range vf.Findings() {
		if f.Property != "C10" || f.Status != "open" || f.Example == "" {
			continue
		}
		k.Eval()
		var err error
		switch f.ID {
		case FindingObjLenUserdata:
			var c ObjCase
			if e := json.Unmarshal([]byte(f.Example), &c); e != nil {
				t.Errorf("finding %s: example does not parse: %v", f.ID, e)
				continue
			}
			err = chkObj.Try(&c)
		default:
			t.Logf("finding %s: no re-run routine", f.ID)
			continue
		}
		if err != nil {
			k.Class("still_fails:" + f.ID)
			t.Logf("KNOWN-FINDING still fails: %s: %v", f.ID, err)
		} else {
			k.Class("no_longer_fails:" + f.ID)
			t.Logf("KNOWN-FINDING no longer fails: %s (mark it fixed and drop the exclusion)", f.ID)
		}
	}
}
