co = coroutine.wrap(function()
  co()
end)

local ok, msg = pcall(function()
  co()
end)
assert(not ok and string.find(msg, "can not resume a running thread"))

co = coroutine.wrap(function()
  return 1
end)
assert(co() == 1)
local ok, msg = pcall(function()
  co()
end)
assert(not ok and string.find(msg, "can not resume a dead thread"))
