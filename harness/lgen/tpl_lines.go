package lgen

import (
	L "verif/luaref"
)

// ---- C17: line information and the variables in scope

// LinesPrelude defines the probes (as Lua text, printed verbatim before the generated program).
const LinesPrelude = `local function dumplocals(tag)
  local i = 1
  while true do
    local n, v = debug.getlocal(2, i)
    if not n then break end
    if n:sub(1, 1) ~= "(" then emit("local@" .. tag, n, v) end
    i = i + 1
  end
  return tag
end
local function setbyname(name, val)
  local i, found = 1, nil
  while true do
    local n = debug.getlocal(2, i)
    if not n then break end
    if n == name then found = i end
    i = i + 1
  end
  if found then
    local r = debug.setlocal(2, found, val)
    return r
  end
end
local function dumpupvalues(f)
  local names, vals = {}, {}
  local i = 1
  while true do
    local n, v = debug.getupvalue(f, i)
    if not n then break end
    names[#names + 1] = n
    vals[n] = v
    i = i + 1
  end
  table.sort(names)
  for j = 1, #names do emit("upvalue", names[j], vals[names[j]]) end
end
local function setupbyname(f, name, val)
  local i = 1
  while true do
    local n = debug.getupvalue(f, i)
    if not n then return nil end
    if n == name then
      local r = debug.setupvalue(f, i, val)
      return r
    end
    i = i + 1
  end
end
local function here()
  local info = debug.getinfo(2, "l")
  return info.currentline
end
local function hereat(l)
  local info = debug.getinfo(l + 1, "l")
  return info and info.currentline
end
local function dumpupvaluesinorder(f)
  local i = 1
  while true do
    local n, v = debug.getupvalue(f, i)
    if not n then break end
    emit("upvalue in order", i, n, v)
    i = i + 1
  end
end
`

func emitline(args ...L.Expr) L.Stmt { return callStmt(call(name("emitline"), args...)) }

func curline() L.Expr {
	return field(call(field(name("debug"), "getinfo"), num(1), str("l")), "currentline")
}

// tplLineProbes: faults of every kind inside pcall (their messages carry a line), currentline at level 1 and 2 in
// statements that the layout may spread over several lines, linedefined/lastlinedefined of functions.
func (g *Gen) tplLineProbes() []L.Stmt {
	// expressions generated here end up inside functions that are not vararg
	saved := g.fn
	g.fn = &fnCtx{parent: saved, depth: saved.depth + 1, mark: g.mark()}
	defer func() { g.fn = saved }()
	var out []L.Stmt
	for i, n := 0, 1+g.n(4, "nprobes"); i < n; i++ {
		form := g.n(22, "lineprobe")
		g.class("lineprobe:" + itoa(form))
		switch form {
		case 0:
			out = append(out, emit(call(name("pcall"), fn(nil, false, blk(local1("z", &L.NilExpr{}), ret(bin("+", name("z"), g.expr(KInt, 2))))))))
		case 1:
			out = append(out, emit(call(name("pcall"), fn(nil, false, blk(local1("z", &L.NilExpr{}), ret(field(name("z"), "fld")))))))
		case 2:
			out = append(out, emit(call(name("pcall"), fn(nil, false, blk(local1("z", &L.NilExpr{}), callStmt(call(name("z"), g.expr(KInt, 2), g.expr(KStr, 2))), ret(num(1)))))))
		case 3:
			out = append(out, emit(call(name("pcall"), fn(nil, false, blk(ret(bin("<", tbl(), g.expr(KInt, 2))))))))
		case 4:
			out = append(out, emit(call(name("pcall"), fn(nil, false, blk(ret(bin("..", g.expr(KStr, 2), tbl())))))))
		case 5:
			out = append(out, emit(call(name("pcall"), fn(nil, false, blk(callStmt(call(name("error"), g.expr(KStr, 2))))))))
		case 6:
			// level 2: the position is that of the statement calling the function that calls error
			thrower := fn([]string{"m"}, false, blk(callStmt(call(name("error"), name("m"), num(2)))))
			out = append(out, emit(call(name("pcall"), fn(nil, false, blk(local1("thrower", thrower), callStmt(call(name("thrower"), g.expr(KStr, 2))), ret(num(1)))))))
		case 7:
			// currentline inside an expression of a statement that may span lines
			out = append(out, emitline(g.expr(KInt, 1), curline(), tbl(pos(g.expr(KStr, 2)), pos(curline())), curline()))
			out[len(out)-1] = callStmt(call(name("emitline"), curline(), call(name("select"), num(2), g.expr(KInt, 2), curline())))
		case 8:
			out = append(out, emitline(call(name("here")), call(name("here"))))
		case 9:
			// a function spread over lines: linedefined / lastlinedefined, and currentline inside it
			f := g.fresh("lf")
			body := g.stmts(1+g.n(3, "lfstmts"), 1)
			body = append(body, emitline(curline()), local1("hl", call(name("here"))), ret(name("hl")))
			out = append(out, local1(f, fn([]string{"p"}, false, blk(body...))),
				local1(f+"i", call(field(name("debug"), "getinfo"), name(f), str("S"))),
				emitline(field(name(f+"i"), "linedefined"), field(name(f+"i"), "lastlinedefined")), emitline(call(name(f), num(1))))
		case 10:
			// runtime fault outside pcall would end the program: do it in a nested function two levels deep
			inner := fn(nil, false, blk(local1("t", tbl()), ret(bin("*", field(name("t"), "missing"), num(2)))))
			outer := fn(nil, false, blk(local1("r", call(paren(inner))), ret(name("r"))))
			out = append(out, emit(call(name("pcall"), outer)))
		case 12, 13, 14:
			// the failing (or calling-out) operation is the first instruction of its statement and follows a statement whose
			// last instruction the code generator's peephole steps may have removed or rewritten
			preds := []L.Stmt{
				local1("v", bin("or", name("a"), name("b"))),
				local1("v", bin("and", name("a"), name("b"))),
				assign1(name("a"), bin("or", name("b"), str("x"))),
				assign1(name("a"), bin("and", name("a"), bin("or", name("b"), num(3)))),
				local1("v", bin("..", name("a"), bin("..", name("b"), str("c")))),
				local1("v", num(5)),
				local1("v", name("a")),
				local1("v", un("not", name("a"))),
				local1("v", bin("==", name("a"), name("b"))),
				local1("v", bin("<", name("a"), name("b"))),
				assign1(name("b"), name("a")),
				ifs(name("a"), blk(assign1(name("b"), num(2))), nil),
				&L.DoStmt{Body: blk(local1("w", name("a")))},
			}
			faults := []L.Stmt{
				local1("r", field(name("z"), "fld")),
				local1("r", bin("+", name("z"), num(1))),
				local1("r", un("#", name("z"))),
				local1("r", un("-", name("z"))),
				local1("r", bin("<", name("z"), num(1))),
				assign1(field(name("z"), "fld"), num(1)),
				local1("r", idx(name("z"), name("a"))),
				callStmt(mcall(name("z"), "method", num(1))),
				local1("r", bin("^", name("z"), name("a"))),
			}
			pi, fi := g.n(len(preds), "predstmt"), g.n(len(faults), "faultstmt")
			g.class("lineprobe:after_peephole_statement")
			if form == 14 {
				// not a fault: the operation calls a metamethod that asks for the line of its caller
				mt := tbl()
				for _, ev := range []string{"__index", "__add", "__len", "__unm", "__lt", "__newindex", "__pow"} {
					mt.Fields = append(mt.Fields, kv(str(ev), fn(nil, true, blk(emitline(str(ev), field(call(field(name("debug"), "getinfo"), num(2), str("l")), "currentline")), ret(num(1))))))
				}
				body := blk(local1("z", call(name("setmetatable"), tbl(), mt)), local([]string{"a", "b"}, num(1), num(2)), preds[pi], faults[fi], ret(num(1)))
				if fi == 2 || fi == 7 {
					// (# on a table does not consult __len in 5.1; a method call needs a function from __index)
					body = blk(local1("z", call(name("setmetatable"), tbl(), mt)), local([]string{"a", "b"}, num(1), num(2)), preds[pi], faults[0], ret(num(1)))
				}
				out = append(out, emit(call(name("pcall"), fn(nil, false, body))))
				g.class("lineprobe:currentline_from_metamethod")
			} else {
				out = append(out, emit(call(name("pcall"), fn(nil, false, blk(local1("z", &L.NilExpr{}), local([]string{"a", "b"}, num(1), num(2)), preds[pi], faults[fi], ret(num(1)))))))
			}
		case 15, 16:
			// a generic for whose header calls out: the generator is not callable, the iterator asks for the line of its
			// caller (the for statement), or raises at level 2 - all reported against the loop header, however long the body
			body := blk(emit(str("generic for body"), name("gk")), local1("pad1", num(1)), local1("pad2", num(2)))
			switch g.n(4, "genforline") {
			case 0:
				out = append(out, emit(call(name("pcall"), fn(nil, false, blk(&L.GenForStmt{Names: []string{"gk"}, Exprs: []L.Expr{&L.NilExpr{}}, Body: body})))))
			case 1:
				out = append(out, emit(call(name("pcall"), fn(nil, false, blk(&L.GenForStmt{Names: []string{"gk"}, Exprs: []L.Expr{tbl(), num(1)}, Body: body})))))
			case 2:
				it := fn([]string{"s", "c"}, false, blk(emitline(str("iterator called from line"), field(call(field(name("debug"), "getinfo"), num(2), str("l")), "currentline")), ifs(bin("<", name("c"), num(2)), blk(ret(bin("+", name("c"), num(1)))), nil)))
				out = append(out, local1("lit", it), &L.GenForStmt{Names: []string{"gk"}, Exprs: []L.Expr{name("lit"), &L.NilExpr{}, num(0)}, Body: body})
			default:
				it := fn([]string{"s", "c"}, false, blk(ifs(bin(">=", name("c"), num(1)), blk(callStmt(call(name("error"), str("iterator gives up"), num(2)))), nil), ret(bin("+", name("c"), num(1)))))
				out = append(out, emit(call(name("pcall"), fn(nil, false, blk(local1("lit", it), &L.GenForStmt{Names: []string{"gk"}, Exprs: []L.Expr{name("lit"), &L.NilExpr{}, num(0)}, Body: body})))))
			}
			g.class("lineprobe:generic_for_header")
		case 17:
			// three function levels: the middle one hands the same outer variable on to several inner closures (and uses
			// it itself); it has each upvalue once
			mid := fn(nil, false, blk(local1("in1", fn(nil, false, blk(ret(name("ox"))))), local1("in2", fn(nil, false, blk(ret(bin("..", call(name("tostring"), name("ox")), call(name("tostring"), name("oy"))))))), local1("in3", fn(nil, false, blk(assign1(name("ox"), num(1)), ret(name("oz"))))),
				ret(name("in1"), name("in2"), name("in3"), name("ox"))))
			outer := fn(nil, false, blk(local([]string{"ox", "oy", "oz"}, num(10), str("twenty"), num(30)), local1("mid", mid), callStmt(call(name("dumpupvalues"), name("mid"))),
				emit(str("setupvalue oy"), call(name("setupbyname"), name("mid"), str("oy"), str("changed"))), emit(name("ox"), name("oy"), name("oz")),
				local([]string{"i1", "i2", "i3"}, call(name("mid"))), callStmt(call(name("dumpupvalues"), name("i2"))), emit(call(name("i2"))), emit(call(field(name("debug"), "getupvalue"), name("mid"), num(4)))))
			out = append(out, local1("outer17", outer), callStmt(call(name("outer17"))))
			g.class("lineprobe:upvalue_handed_on_twice")
		case 18:
			// upvalues are numbered by first mention, also when that mention is an assignment target; the mentions here come
			// in the order of the declarations, so both readings of "in order" agree
			inner := []*L.FuncExpr{
				fn(nil, false, blk(assign1(name("ua"), name("ub")), ret(name("uc")))),
				fn(nil, false, blk(&L.AssignStmt{Targets: []L.Expr{name("ua"), name("ub")}, Exprs: []L.Expr{name("uc"), name("uc")}}, ret(name("ud")))),
				fn(nil, false, blk(assign1(name("ua"), num(1)), assign1(name("ub"), bin("+", name("ua"), name("uc"))), ret(name("ud")))),
				fn(nil, false, blk(local1("x", name("ua")), assign1(name("ub"), name("x")), assign1(name("uc"), name("ud")))),
			}[g.n(4, "upvalorder")]
			outer := fn(nil, false, blk(local([]string{"ua", "ub", "uc", "ud"}, num(1), num(2), num(3), num(4)), local1("uf", inner), callStmt(call(name("dumpupvaluesinorder"), name("uf"))),
				emit(str("setupvalue 1"), call(field(name("debug"), "setupvalue"), name("uf"), num(1), str("first"))), emit(name("ua"), name("ub"), name("uc"), name("ud"))))
			out = append(out, local1("outer18", outer), callStmt(call(name("outer18"))))
			g.class("lineprobe:upvalue_numbering")
		case 19:
			// a host function that fails while its direct caller is a host function too: the position still is a line of the
			// running statement (never a host function's name)
			bad := []L.Expr{
				call(name("pcall"), field(name("string"), "rep")),
				call(name("pcall"), name("pcall"), field(name("string"), "rep")),
				call(name("pcall"), field(name("string"), "gsub"), str("abc"), str("b"), field(name("string"), "rep")),
				call(name("xpcall"), field(name("string"), "rep"), fn([]string{"m"}, false, blk(ret(name("m"))))),
				call(name("pcall"), field(name("table"), "concat"), tbl(pos(tbl()))),
				call(name("pcall"), name("hostcall"), field(name("string"), "rep")),
				call(name("pcall"), name("ipairs")),
			}[g.n(7, "hosthost")]
			out = append(out, emit(bad))
			g.class("lineprobe:host_function_fails_under_host_function")
		case 20:
			// k tail calls in a row: the replaced activations still count as levels (5.1), so the caller of the first one is
			// level k + 2 of the last
			k := 1 + g.n(3, "tailchain")
			var ss []L.Stmt
			ss = append(ss, &L.LocalFuncStmt{Name: "tc0", Fn: fn(nil, false, blk(emitline(str("after tail calls"), call(name("hereat"), num(1)), call(name("hereat"), num(float64(k+2))), call(name("hereat"), num(float64(k+3)))), ret(num(1))))})
			for i := 1; i <= k; i++ {
				ss = append(ss, &L.LocalFuncStmt{Name: "tc" + itoa(i), Fn: fn(nil, false, blk(local1("pad", num(float64(i))), ret(call(name("tc"+itoa(i-1))))))})
			}
			ss = append(ss, &L.LocalFuncStmt{Name: "tctop", Fn: fn(nil, false, blk(local1("r", call(name("tc"+itoa(k)))), ret(name("r"))))}, callStmt(call(name("tctop"))))
			out = append(out, &L.DoStmt{Body: blk(ss...)})
			g.class("lineprobe:levels_across_tail_calls")
		default:
			// loop control faults are reported against the loop header: a bad initial value, limit or step, whatever the body
			bad := g.n(3, "badforpart")
			parts := []L.Expr{num(1), num(2), num(1)}
			parts[bad] = []L.Expr{tbl(), &L.TrueExpr{}, &L.NilExpr{}}[g.n(3, "badforval")]
			if bad == 1 && g.n(2, "plain") == 0 {
				parts[2] = nil
			}
			out = append(out, emit(call(name("pcall"), fn(nil, false, blk(&L.NumForStmt{Var: "i", Start: parts[0], End: parts[1], Step: parts[2], Body: blk(emit(name("i")), local1("pad1", num(1)), local1("pad2", num(2)))})))))
			g.class("lineprobe:numeric_for_header")
		}
	}
	return out
}

func itoa(n int) string {
	if n == 0 {
		return "0"
	}
	s := ""
	for n > 0 {
		s = string(rune('0'+n%10)) + s
		n /= 10
	}
	return s
}

// tplScopeProbes: getlocal/setlocal/getupvalue/setupvalue at generated points: after k declarations, inside nested
// blocks and loops (with ended inner scopes before the probe), in a closure.
func (g *Gen) tplScopeProbes() []L.Stmt {
	tag := g.fresh("S")
	f := g.fresh("sf")
	var body []L.Stmt
	nd := 1 + g.n(4, "ndecl")
	var names []string
	for i := 0; i < nd; i++ {
		n := g.fresh("d")
		if i > 0 && g.n(4, "reuse") == 0 {
			n = names[g.n(len(names), "reusewho")] // shadowing in the same function
			g.class("scope:shadowed_name")
		}
		names = append(names, n)
		// the query may come from inside the statement that declares the variable, or from the instruction just before it:
		// the variable is not in scope yet
		switch g.n(6, "declform") {
		case 2:
			g.class("scope:probe_inside_declaring_statement")
			body = append(body, local1(n, call(name("dumplocals"), str(tag+" initialiser of "+n))))
		case 3:
			g.class("scope:probe_just_before_declaration")
			body = append(body, callStmt(call(name("dumplocals"), str(tag+" before function "+n))), &L.LocalFuncStmt{Name: n, Fn: fn(nil, false, blk(ret(num(1))))})
		case 4:
			g.class("scope:probe_just_before_declaration")
			body = append(body, callStmt(call(name("dumplocals"), str(tag+" before bare local "+n))), local([]string{n}))
		default:
			body = append(body, local1(n, g.leaf([]Kind{KInt, KStr, KBool}[g.n(3, "dk")])))
		}
		if g.n(3, "endedscope") == 0 {
			// an inner scope that has ended before the probe
			inner := []L.Stmt{local1(g.fresh("gone"), num(1)), local1(g.fresh("gone"), str("x"))}
			if g.n(2, "innershadows") == 0 {
				// the ended scope redeclared names that are still alive outside it (a local declared earlier, a parameter)
				who := append([]string{"pa", "pb"}, names...)
				inner = append(inner, local1(who[g.n(len(who), "shadowwho")], str("inner shadow")))
				if g.n(2, "innershadow2") == 0 {
					inner = append([]L.Stmt{local1(who[g.n(len(who), "shadowwho2")], str("inner shadow, first"))}, inner...)
				}
				g.class("scope:ended_scope_shadowed_live_name")
			}
			body = append(body, &L.DoStmt{Body: blk(inner...)})
			g.class("scope:ended_inner_scope")
		}
	}
	probe := func(where string) []L.Stmt {
		ss := []L.Stmt{callStmt(call(name("dumplocals"), str(tag+where)))}
		if g.n(2, "dosetlocal") == 0 {
			n := names[g.n(len(names), "setwho")]
			ss = append(ss, emit(str("setlocal"), call(name("setbyname"), str(n), str("changed "+where))), emit(name(n)))
			g.class("scope:setlocal")
		}
		return ss
	}
	switch g.n(5, "scopeform") {
	case 0:
		body = append(body, probe("flat")...)
	case 1:
		body = append(body, &L.DoStmt{Body: blk(append([]L.Stmt{local1("blk", num(1))}, probe("block")...)...)})
		body = append(body, probe("after block")...)
	case 2:
		body = append(body, callStmt(call(name("dumplocals"), str(tag+" before numeric for"))))
		body = append(body, &L.NumForStmt{Var: "li", Start: num(1), End: num(2), Body: blk(append([]L.Stmt{local1("inloop", name("li"))}, probe("numfor")...)...)})
	case 3:
		body = append(body, callStmt(call(name("dumplocals"), str(tag+" before generic for"))))
		body = append(body, &L.GenForStmt{Names: []string{"gk", "gv"}, Exprs: []L.Expr{call(name("ipairs"), tbl(pos(str("e1"))))}, Body: blk(probe("genfor")...)})
	default:
		// a closure: its own locals and parameters at level 1, upvalues through getupvalue/setupvalue
		up := names[0]
		cl := fn([]string{"cp"}, false, blk(append([]L.Stmt{local1("cl", bin("..", str("c"), call(name("tostring"), name("cp")))), local1("seen", name(up))}, probe("closure")...)...))
		body = append(body, local1("clo", cl), callStmt(call(name("clo"), num(7))), callStmt(call(name("dumpupvalues"), name("clo"))),
			emit(str("setupvalue"), call(name("setupbyname"), name("clo"), str(up), str("via setupvalue"))), emit(name(up)))
		g.class("scope:closure_upvalues")
	}
	body = append(body, ret())
	return []L.Stmt{local1(f, fn([]string{"pa", "pb"}, g.n(3, "scopevararg") == 0, blk(body...))), callStmt(call(name(f), num(1), str("two"), num(3)))}
}

// Lines is the profile of C17.
func Lines() *Profile {
	return &Profile{Name: "lines", MaxStmts: 8, MaxDepth: 3, Wild: 6, WildOpen: 0, Stress: 0, TemplatePc: 60, NoGoto: false,
		Templates: []func(g *Gen) []L.Stmt{(*Gen).tplLineProbes, (*Gen).tplLineProbes, (*Gen).tplScopeProbes}}
}
