package c16

import (
	"fmt"
	"math"
	"strconv"
	"strings"
	"testing"

	lua "github.com/yuin/gopher-lua"
	"pgregory.net/rapid"

	"verif/cref16"
	"verif/vf"
)

// ---------------------------------------------------------------------------------------------
// case + oracle

// NumCase is one string S.  The oracle classifies it with the strict 5.1 numeral grammar (model_test.go):
//
//	[blanks][+|-] numeral [blanks]  ->  tonumber(S), tonumber(S,10), S+0, 0+S, S-0, S*1, S/1, S^1, -S, S+"0", math.max(S)
//	                                    must all give the value libc assigns to the numeral (strtod; hex: strtoull),
//	                                    and the bare numeral must denote the same value as a token of a chunk;
//	anything else                   ->  tonumber gives nil, every arithmetic use raises, and when the 5.1 lexer would
//	                                    glue S into one numeral token `return S` must be a load error.
type NumCase struct {
	S    string  `json:"s"`
	Kind string  `json:"kind,omitempty"` // generator label, informational
	From *uint64 `json:"from,omitempty"` // bits of the float64 the numeral was spelled from (must be what it denotes)
}

var arithHelpers = []string{"add0", "radd0", "sub0", "mul1", "div1", "pow1", "neg", "addss", "libarg"}

func arithExpect(name string, v float64) float64 {
	switch name {
	case "add0", "radd0", "addss":
		return v + 0
	case "sub0":
		return v - 0
	case "mul1":
		return v * 1
	case "div1":
		return v / 1
	case "pow1":
		return math.Pow(v, 1)
	case "neg":
		return -v
	}
	return v
}

var arithText = map[string]string{"add0": "S+0", "radd0": "0+S", "sub0": "S-0", "mul1": "S*1", "div1": "S/1", "pow1": "S^1", "neg": "-S",
	"addss": `S+"0"`, "libarg": "math.max(S)"}

// refValue asks libc for the value of a numeral body that the grammar accepted.  discard != "" means the
// references are not usable for this spelling.
func refValue(kind, body string) (v float64, discard string, err error) {
	if kind == "hex" {
		u, used, rng := cref16.Strtoull(body[2:], 16)
		if used != len(body)-2 {
			return 0, "", fmt.Errorf("harness: strtoull consumed %d of %q", used, body[2:])
		}
		if rng {
			return 0, "hex_numeral_over_64_bits", nil // strtoul saturates, C99 strtod rounds: the 5.1 answer is platform dependent
		}
		v = float64(u)
		if d, n := cref16.Strtod(body); n != len(body) || !sameBits(d, v) {
			return 0, "", fmt.Errorf("harness: strtoull and C99 strtod disagree on %q: %v vs %v (used %d)", body, v, d, n)
		}
		return v, "", nil
	}
	d, n := cref16.Strtod(body)
	if n != len(body) {
		return 0, "", fmt.Errorf("harness: strtod consumed %d of %q which the grammar accepts", n, body)
	}
	g, perr := strconv.ParseFloat(body, 64)
	if perr != nil && !strings.Contains(perr.Error(), "out of range") {
		return 0, "", fmt.Errorf("harness: strconv rejects %q which the grammar accepts: %v", body, perr)
	}
	if !sameBits(d, g) {
		return 0, "libc_and_go_round_differently", nil
	}
	return d, "", nil
}

var lexTemplates = []struct {
	tmpl string
	neg  bool
}{
	{"return %s", false}, {"return %s ", false}, {"return %s\n", false}, {"return(%s)", false}, {"return -%s", true},
	{"return %s+0", false}, {"local x = %s; return x", false}, {"return {%s}", false},
}

var lexNegTemplates = []string{"return %s", "return %s ", "return(%s)", "return %s;", "local x = %s"}

var chkNum = vf.Register("numeral", func(k *vf.C, c *NumCase) error {
	if strings.IndexByte(c.S, 0) >= 0 {
		return fmt.Errorf("harness: NUL in numeral case")
	}
	ip := in()
	S := lua.LString(c.S)
	kind, neg, body := numericStringKind(c.S)
	if kind == "" {
		return numNegative(k, ip, c)
	}
	v, discard, err := refValue(kind, body)
	if err != nil {
		return err
	}
	if discard != "" {
		k.Discard(discard)
		return nil
	}
	if c.From != nil && math.Float64bits(v) != *c.From {
		return fmt.Errorf("harness: spelling %q denotes %s, generator spelled it from bits %016x", body, fnum(v), *c.From)
	}
	// (a) the numeral as a token
	for _, lt := range lexTemplates {
		src := fmt.Sprintf(lt.tmpl, body)
		fn, lerr, err := ip.loadChunk(src)
		if err != nil {
			return err
		}
		if lerr != nil {
			return fmt.Errorf("chunk %q does not load (numeral %q denotes %s): %v", src, body, fnum(v), lerr)
		}
		res, err := ip.callFn(fn, 1)
		if err != nil {
			return fmt.Errorf("chunk %q fails: %v", src, err)
		}
		got := res[0]
		if tb, ok := got.(*lua.LTable); ok {
			got = tb.RawGetInt(1)
		}
		want := v
		if lt.neg {
			want = -v
		}
		if g, ok := num(got); !ok || !sameNum(g, want) {
			return fmt.Errorf("chunk %q yields %s, want %s (libc value of the numeral)", src, show(got), fnum(want))
		}
	}
	// (b) the string through tonumber and arithmetic
	sv := v
	if neg {
		sv = -v
	}
	for _, h := range []string{"tonumber", "tonumber10"} {
		res, err := ip.call(h, 1, S)
		if err != nil {
			return fmt.Errorf("%s(%q) raised: %v", h, c.S, err)
		}
		if g, ok := num(res[0]); !ok || !sameNum(g, sv) {
			return fmt.Errorf("%s(%q) = %s, want %s", h, c.S, show(res[0]), fnum(sv))
		}
	}
	for _, h := range arithHelpers {
		res, err := ip.call(h, 1, S)
		if err != nil {
			return fmt.Errorf("%s with S=%q raised: %v (S is a numeral denoting %s)", arithText[h], c.S, err, fnum(sv))
		}
		want := arithExpect(h, sv)
		if g, ok := num(res[0]); !ok || !sameNum(g, want) {
			return fmt.Errorf("%s with S=%q = %s, want %s", arithText[h], c.S, show(res[0]), fnum(want))
		}
	}
	// bookkeeping
	k.Class("accept:" + kind)
	if c.Kind != "" {
		k.Class("gen:" + strings.SplitN(c.Kind, "+", 2)[0])
		for _, deco := range strings.Split(c.Kind, "+")[1:] {
			k.Class("gen_decoration:" + deco)
		}
	}
	classifyNumeral(k, c.S, body, kind, neg, v)
	shortest := strconv.FormatFloat(v, 'g', -1, 64)
	plain := strconv.FormatFloat(v, 'f', -1, 64)
	if c.S != shortest && c.S != plain {
		nontrivial(k, vf.Hash("num", c.S))
		k.Sample("numeral/"+kind, 2, map[string]any{"s": c.S, "value": fnum(sv)})
	}
	return nil
})

func classifyNumeral(k *vf.C, s, body, kind string, neg bool, v float64) {
	if len(s) != len(body) {
		if i := strings.Index(s, body); i > 0 && (s[i-1] == '+' || s[i-1] == '-') {
			k.Class("form:signed")
			if kind == "hex" {
				k.Class("form:signed_hex")
			}
		}
		if isCSpace(s[0]) {
			k.Class("form:leading_blank")
		}
		if isCSpace(s[len(s)-1]) {
			k.Class("form:trailing_blank")
		}
		if strings.ContainsAny(s, "\r\v\f") {
			k.Class("form:blank_cr_vt_ff")
		}
	}
	if kind == "hex" {
		if body[1] == 'X' {
			k.Class("form:0X")
		}
		if strings.ContainsAny(body[2:], "abcdef") && strings.ContainsAny(body[2:], "ABCDEF") {
			k.Class("form:hex_mixed_case")
		}
		if v >= 1<<53 {
			k.Class("form:hex>=2^53")
		}
		if len(body) > 3 && body[2] == '0' {
			k.Class("form:hex_leading_zero")
		}
		return
	}
	if len(body) > 1 && body[0] == '0' && isDig(body[1]) {
		k.Class("form:leading_zeros")
	}
	if body[0] == '.' {
		k.Class("form:.5")
	}
	if i := strings.IndexByte(body, '.'); i >= 0 && (i == len(body)-1 || !isDig(body[i+1])) {
		k.Class("form:3.")
	}
	if i := strings.IndexAny(body, "eE"); i >= 0 {
		k.Class("form:exponent")
		if body[i] == 'E' {
			k.Class("form:E")
		}
		if body[i+1] == '+' {
			k.Class("form:e+")
		}
		if body[i+1] == '-' {
			k.Class("form:e-")
		}
		if !strings.Contains(body, ".") {
			k.Class("form:exponent_without_point")
		}
	}
	nd := 0
	for i := 0; i < len(body) && body[i] != 'e' && body[i] != 'E'; i++ {
		if isDig(body[i]) {
			nd++
		}
	}
	if nd >= 17 {
		k.Class("form:>=17_digits")
	}
	switch {
	case math.IsInf(v, 0):
		k.Class("value:overflow_to_inf")
	case v == 0 && strings.ContainsAny(body, "123456789"):
		k.Class("value:underflow_to_zero")
	case v != 0 && v < 2.2250738585072014e-308:
		k.Class("value:subnormal")
	case v >= 9223372036854775808:
		k.Class("value:>=2^63")
	case v == math.Trunc(v) && v >= 1<<53:
		k.Class("value:integer>=2^53")
	case v == math.Trunc(v):
		k.Class("value:integer<2^53")
	default:
		k.Class("value:fractional")
	}
}

func numNegative(k *vf.C, ip *interp, c *NumCase) error {
	S := lua.LString(c.S)
	for _, h := range []string{"tonumber", "tonumber10"} {
		res, err := ip.call(h, 1, S)
		if err != nil {
			return fmt.Errorf("%s(%q) raised: %v", h, c.S, err)
		}
		if res[0] != lua.LNil {
			return fmt.Errorf("%s(%q) = %s, want nil: the string is not [blanks][sign]<decimal or 0x numeral>[blanks]", h, c.S, show(res[0]))
		}
	}
	for _, h := range arithHelpers {
		res, err := ip.call(h, 1, S)
		if err == nil {
			return fmt.Errorf("%s with S=%q = %s, want an error: the string is not a numeral", arithText[h], c.S, show(res[0]))
		}
		if !isLuaError(err) {
			return err
		}
	}
	k.Class("reject:string")
	tokenShaped := len(c.S) > 0 && lexNumeralExtent(c.S) == len(c.S)
	if tokenShaped {
		for _, tmpl := range lexNegTemplates {
			src := fmt.Sprintf(tmpl, c.S)
			fn, lerr, err := ip.loadChunk(src)
			if err != nil {
				return err
			}
			if lerr == nil {
				got := "?"
				if res, e := ip.callFn(fn, 1); e == nil {
					got = show(res[0])
				}
				return fmt.Errorf("chunk %q loads (value %s) although %q is a malformed numeral token", src, got, c.S)
			}
		}
		k.Class("reject:token")
	}
	if c.Kind != "" {
		k.Class("gen:" + c.Kind)
	}
	low := strings.ToLower(c.S)
	switch {
	case strings.TrimFunc(c.S, func(r rune) bool { return r < 128 && isCSpace(byte(r)) }) == "":
		k.Class("reject:empty_or_blank")
	case strings.IndexFunc(c.S, func(r rune) bool { return r >= 128 }) >= 0:
		k.Class("reject:non_ascii")
	case strings.Contains(low, "inf") || strings.Contains(low, "nan"):
		k.Class("reject:inf_nan")
	case strings.Contains(low, "0x") && strings.ContainsAny(low, "p."):
		k.Class("reject:hex_float_like")
	case strings.Contains(low, "_"):
		k.Class("reject:underscore")
	case strings.Contains(low, "0b") || strings.Contains(low, "0o"):
		k.Class("reject:0b_0o")
	case strings.HasSuffix(low, "e") || strings.HasSuffix(low, "e+") || strings.HasSuffix(low, "e-"):
		k.Class("reject:dangling_exponent")
	case strings.Count(low, ".") > 1:
		k.Class("reject:two_points")
	case strings.HasSuffix(low, "0x"):
		k.Class("reject:bare_0x")
	}
	if _, _, ok := splitNumeric(c.S); ok {
		t := strings.TrimFunc(c.S, func(r rune) bool { return r < 128 && isCSpace(byte(r)) })
		if strings.IndexFunc(t, func(r rune) bool { return r < 128 && isCSpace(byte(r)) }) >= 0 {
			k.Class("reject:inner_blank")
		}
	}
	if len(c.S) >= 2 {
		nontrivial(k, vf.Hash("numneg", c.S))
		kind := "reject"
		if tokenShaped {
			kind = "reject_token"
		}
		k.Sample(kind, 2, map[string]any{"s": c.S})
	}
	return nil
}

// ---------------------------------------------------------------------------------------------
// generators: values and their spellings

var numCorners = []float64{0, 1, 2, 7, 8, 9, 10, 15, 16, 17, 63, 64, 100, 255, 256, 1000, 0.1, 0.2, 0.5, 1.5, 0.25, 0.3, 0.30000000000000004,
	4.9e-324, 1e-323, 2.2250738585072014e-308, 2.225073858507201e-308, 1.7976931348623157e308, 8.98846567431158e307,
	4503599627370496, 9007199254740991, 9007199254740992, 9007199254740994, 9223372036854775808, 18446744073709551616,
	4294967295, 4294967296, 2147483647, 2147483648, 1e15, 1e16, 1e17, 1e20, 1e21, 1e22, 1e23, 1e100, 1e-5, 1e-7,
	123456789012345678, 0.000001, 0.0000001, 3.141592653589793, 2.718281828459045, 1.0000000000000002, 0.9999999999999999, 1e308, 1e-308}

func genValue(t *rapid.T) float64 {
	switch rapid.IntRange(0, 6).Draw(t, "vclass") {
	case 0:
		return float64(rapid.IntRange(0, 300).Draw(t, "small"))
	case 1:
		return float64(rapid.Uint64Range(0, 1<<53).Draw(t, "int53"))
	case 2:
		p := math.Ldexp(1, rapid.IntRange(0, 64).Draw(t, "pow2"))
		return p + float64(rapid.IntRange(-1, 1).Draw(t, "d"))
	case 3:
		if rapid.Bool().Draw(t, "uniform_exponent") {
			e := uint64(rapid.IntRange(0, 2046).Draw(t, "exp"))
			return math.Float64frombits(e<<52 | rapid.Uint64().Draw(t, "mant")&(1<<52-1))
		}
		return math.Float64frombits(rapid.Uint64Range(0, 0x7FEFFFFFFFFFFFFF).Draw(t, "bits"))
	case 4:
		n := float64(rapid.Uint64Range(0, 10000000).Draw(t, "n"))
		return n / math.Pow(10, float64(rapid.IntRange(0, 8).Draw(t, "d")))
	case 5:
		return numCorners[rapid.IntRange(0, len(numCorners)-1).Draw(t, "corner")]
	}
	// an integer up to 2^64 - 1 (rounded)
	return float64(rapid.Uint64().Draw(t, "u64"))
}

func randCase(t *rapid.T, s string) string {
	b := []byte(s)
	for i, c := range b {
		if 'a' <= c && c <= 'z' && rapid.Bool().Draw(t, "up") {
			b[i] = c - 32
		}
	}
	return string(b)
}

// spell writes the finite value v >= 0 as a numeral body that denotes exactly v.
func spell(t *rapid.T, v float64) (string, string) {
	form := rapid.IntRange(0, 6).Draw(t, "form")
	var s, label string
	switch form {
	case 0:
		s, label = strconv.FormatFloat(v, 'g', -1, 64), "shortest_g"
	case 1:
		s, label = strconv.FormatFloat(v, 'f', -1, 64), "shortest_f"
	case 2:
		s, label = strconv.FormatFloat(v, 'e', -1, 64), "shortest_e"
	case 3:
		s, label = strconv.FormatFloat(v, 'e', 16, 64), "17_digits"
	case 4:
		s, label = strconv.FormatFloat(v, 'e', rapid.IntRange(17, 40).Draw(t, "prec"), 64), "long_digits"
	case 5:
		s, label = rescale(t, v), "rescaled"
	case 6:
		if v == math.Trunc(v) && v < 18446744073709551616 {
			u := uint64(v)
			h := strconv.FormatUint(u, 16)
			h = strings.Repeat("0", rapid.IntRange(0, 2).Draw(t, "hz")*rapid.IntRange(0, 1).Draw(t, "hz2")) + h
			return []string{"0x", "0X"}[rapid.IntRange(0, 1).Draw(t, "0x")] + randCase(t, h), "hex"
		}
		s, label = strconv.FormatFloat(v, 'g', -1, 64), "shortest_g"
	}
	// decorations that keep the denoted value
	if rapid.IntRange(0, 3).Draw(t, "lz") == 0 {
		s = strings.Repeat("0", rapid.IntRange(1, 3).Draw(t, "nlz")) + s
		label += "+lz"
	}
	if !strings.ContainsAny(s, ".eE") && rapid.IntRange(0, 2).Draw(t, "dot") == 0 {
		s += []string{".", ".0", ".000"}[rapid.IntRange(0, 2).Draw(t, "dotform")]
		label += "+dot"
	}
	if strings.HasPrefix(s, "0.") && len(s) > 2 && isDig(s[2]) && rapid.Bool().Draw(t, "strip0") {
		s = s[1:]
		label += "+nolead"
	}
	if !strings.ContainsAny(s, "eE") && rapid.IntRange(0, 3).Draw(t, "e0") == 0 {
		s += []string{"e0", "E0", "e+0", "e-0", "E+00", "e000"}[rapid.IntRange(0, 5).Draw(t, "e0form")]
		label += "+e0"
	}
	if rapid.IntRange(0, 2).Draw(t, "E") == 0 {
		s = strings.ReplaceAll(s, "e", "E")
	}
	if rapid.IntRange(0, 3).Draw(t, "eplus") == 0 {
		// drop the '+' of the exponent or zero-pad it
		if i := strings.IndexAny(s, "eE"); i >= 0 && i+1 < len(s) && s[i+1] == '+' {
			s = s[:i+1] + s[i+2:]
		}
	}
	return s, label
}

// rescale moves the decimal point of the shortest representation and compensates in the exponent.
func rescale(t *rapid.T, v float64) string {
	e := strconv.FormatFloat(v, 'e', -1, 64) // d.ddde±XX
	i := strings.IndexByte(e, 'e')
	x, _ := strconv.Atoi(e[i+1:])
	digits := strings.Replace(e[:i], ".", "", 1)
	p := rapid.IntRange(0, len(digits)).Draw(t, "point")
	ip, fp := digits[:p], digits[p:]
	exp := x - (p - 1)
	var s string
	switch {
	case ip == "":
		s = []string{".", "0.", "00."}[rapid.IntRange(0, 2).Draw(t, "zero")] + fp
	case fp == "":
		s = ip + []string{"", ".", ".0"}[rapid.IntRange(0, 2).Draw(t, "tail")]
	default:
		s = ip + "." + fp
	}
	if rapid.IntRange(0, 3).Draw(t, "fz") == 0 && strings.Contains(s, ".") {
		s += strings.Repeat("0", rapid.IntRange(1, 4).Draw(t, "nfz"))
	}
	sign := ""
	if exp >= 0 {
		sign = []string{"", "+"}[rapid.IntRange(0, 1).Draw(t, "esign")]
	}
	return s + "e" + sign + fmt.Sprintf("%0*d", rapid.IntRange(1, 4).Draw(t, "ew"), exp)
}

func genDigits(t *rapid.T, lo, hi int, label string) string {
	n := rapid.IntRange(lo, hi).Draw(t, label+"n")
	b := make([]byte, n)
	for i := range b {
		b[i] = byte('0' + rapid.IntRange(0, 9).Draw(t, label))
	}
	return string(b)
}

// genFreeNumeral: a syntactically valid decimal numeral with no particular value behind it.
func genFreeNumeral(t *rapid.T) string {
	long := 6
	if rapid.IntRange(0, 3).Draw(t, "long") == 0 {
		long = 25
	}
	ip := genDigits(t, 0, long, "ip")
	fp := ""
	hasDot := rapid.Bool().Draw(t, "hasdot")
	if hasDot {
		fp = genDigits(t, 0, long, "fp")
	}
	if ip == "" && fp == "" {
		ip = "0"
	}
	s := ip
	if hasDot {
		s += "." + fp
	}
	if rapid.Bool().Draw(t, "hasexp") {
		s += []string{"e", "E"}[rapid.IntRange(0, 1).Draw(t, "e")] + []string{"", "+", "-"}[rapid.IntRange(0, 2).Draw(t, "es")]
		switch rapid.IntRange(0, 5).Draw(t, "emag") {
		case 0:
			s += genDigits(t, 4, 6, "ebig")
		case 1:
			s += strconv.Itoa(rapid.IntRange(290, 330).Draw(t, "eedge"))
		default:
			s += genDigits(t, 1, 2, "esmall")
		}
	}
	return s
}

var blankChars = []string{" ", " ", " ", "\t", "\t", "\n", "\n", "\r", "\v", "\f"}

func genBlanks(t *rapid.T, label string) string {
	n := rapid.IntRange(0, 3).Draw(t, label+"n")
	if n == 3 {
		n = 0
	}
	s := ""
	for i := 0; i < n; i++ {
		s += blankChars[rapid.IntRange(0, len(blankChars)-1).Draw(t, label)]
	}
	return s
}

func wrapNumeral(t *rapid.T, body string) string {
	sign := []string{"", "", "-", "+"}[rapid.IntRange(0, 3).Draw(t, "sign")]
	return genBlanks(t, "pre") + sign + body + genBlanks(t, "post")
}

func genNumeralCase(t *rapid.T) *NumCase {
	c := &NumCase{}
	var body string
	if rapid.IntRange(0, 4).Draw(t, "free") == 0 {
		body, c.Kind = genFreeNumeral(t), "free"
	} else {
		v := genValue(t)
		body, c.Kind = spell(t, v)
		bits := math.Float64bits(v)
		c.From = &bits
	}
	c.S = wrapNumeral(t, body)
	return c
}

func TestNumerals(t *testing.T) {
	vf.Rapid(t, func(rt *rapid.T) {
		chkNum.Run(rt, genNumeralCase(rt))
	})
}

// ---------------------------------------------------------------------------------------------
// generators: the negative space (numeral-ish soup and near misses)

var soupTokens = []string{"0", "1", "2", "7", "8", "9", "10", "00", "08", "0010", ".", "..", "e", "E", "e+", "e-", "E+", "x", "X", "0x", "0X",
	"+", "-", "a", "f", "A", "F", "_", "b", "o", "0b", "0o", "0B", "0O", "p", "P", "p+", "p-", " ", "\t", "\n", "\r", "\v", "\f",
	"inf", "nan", "Inf", "NaN", "INF", "NAN", "infinity", "Infinity", "nil", "1e5", "0x1F", ".5", "5.", "1_000", "0b11", "0o17", "1e", "1e+",
	"0x1p4", "0x.8", "0x1.8p1", "1f", "1d", "1L", "1u", "1i", "#", "$", ",", "g", "z", "0xg", "1.5", "3..2", "1.2.3", "0x10", "1e1", "1E-2",
	// blanks and digits only a Unicode-aware reader would take for such
	"\u0661", "\u00a0", "\u2003", "\uff11", "\u0085", "\u1680", "\u2028", "\u2029", "\u202f", "\u205f", "\u3000", "\ufeff", "\u0966", "\u00b2",
	"\x01", "\x7f", "\x1c", "\x1f"}

func genSoup(t *rapid.T) string {
	n := rapid.IntRange(0, 5).Draw(t, "ntok")
	s := ""
	for i := 0; i < n; i++ {
		s += soupTokens[rapid.IntRange(0, len(soupTokens)-1).Draw(t, "tok")]
	}
	return s
}

func genMutant(t *rapid.T) string {
	var body string
	if rapid.Bool().Draw(t, "free") {
		body = genFreeNumeral(t)
	} else {
		body, _ = spell(t, genValue(t))
	}
	if len(body) > 30 {
		body = body[:30]
	}
	b := []byte(body)
	nm := rapid.IntRange(1, 2).Draw(t, "nmut")
	for m := 0; m < nm; m++ {
		if len(b) == 0 {
			b = []byte("0")
		}
		pos := rapid.IntRange(0, len(b)-1).Draw(t, "pos")
		switch rapid.IntRange(0, 4).Draw(t, "mut") {
		case 0: // insert a soup token
			tok := soupTokens[rapid.IntRange(0, len(soupTokens)-1).Draw(t, "tok")]
			b = append(b[:pos], append([]byte(tok), b[pos:]...)...)
		case 1: // append a soup token
			b = append(b, soupTokens[rapid.IntRange(0, len(soupTokens)-1).Draw(t, "tok")]...)
		case 2: // delete
			b = append(b[:pos], b[pos+1:]...)
		case 3: // duplicate
			b = append(b[:pos+1], b[pos:]...)
		case 4: // truncate
			b = b[:pos+1]
		}
	}
	return string(b)
}

func genSoupCase(t *rapid.T) *NumCase {
	c := &NumCase{}
	if rapid.Bool().Draw(t, "mutant") {
		c.S, c.Kind = genMutant(t), "mutant"
	} else {
		c.S, c.Kind = genSoup(t), "soup"
	}
	if rapid.IntRange(0, 3).Draw(t, "wrap") == 0 {
		c.S = wrapNumeral(t, c.S)
	}
	return c
}

func TestNumeralSoup(t *testing.T) {
	vf.Rapid(t, func(rt *rapid.T) {
		chkNum.Run(rt, genSoupCase(rt))
	})
}

// ---------------------------------------------------------------------------------------------
// tonumber(s, base), base != 10

type BaseCase struct {
	S    string `json:"s"`
	Base int    `json:"base"`
}

var chkBase = vf.Register("tonumber_base", func(k *vf.C, c *BaseCase) error {
	if c.Base < 2 || c.Base > 36 || c.Base == 10 || strings.IndexByte(c.S, 0) >= 0 {
		return fmt.Errorf("harness: bad base case")
	}
	digits, signed := basedDigits(c.S, c.Base)
	if signed {
		k.Discard("signed_with_base") // manual: only unsigned integers; strtoul: wraps modulo 2^64
		return nil
	}
	ip := in()
	res, err := ip.call("tonumberb", 1, lua.LString(c.S), lua.LNumber(c.Base))
	if err != nil {
		return fmt.Errorf("tonumber(%q, %d) raised: %v", c.S, c.Base, err)
	}
	if digits == "" {
		if res[0] != lua.LNil {
			return fmt.Errorf("tonumber(%q, %d) = %s, want nil (not a digit string of that base)", c.S, c.Base, show(res[0]))
		}
		k.Class("reject")
		if strings.ContainsAny(c.S, ".") {
			k.Class("reject:has_point")
		}
		nontrivial(k, vf.Hash("base", c.S, strconv.Itoa(c.Base)))
		return nil
	}
	u, used, rng := cref16.Strtoull(digits, c.Base)
	if used != len(digits) {
		return fmt.Errorf("harness: strtoull(%q, %d) consumed %d bytes", digits, c.Base, used)
	}
	if rng {
		k.Discard("over_64_bits")
		return nil
	}
	want := float64(u)
	if g, ok := num(res[0]); !ok || !sameNum(g, want) {
		return fmt.Errorf("tonumber(%q, %d) = %s, want %s", c.S, c.Base, show(res[0]), fnum(want))
	}
	k.Class("accept")
	k.Class(fmt.Sprintf("base:%02d", c.Base))
	switch {
	case u >= 1<<63:
		k.Class("value:>=2^63")
	case u >= 1<<53:
		k.Class("value:>=2^53")
	default:
		k.Class("value:<2^53")
	}
	if len(c.S) != len(digits) {
		k.Class("accept:blanks_or_0x")
	}
	nontrivial(k, vf.Hash("base", c.S, strconv.Itoa(c.Base)))
	k.Sample("base", 2, map[string]any{"s": c.S, "base": c.Base, "value": fnum(want)})
	return nil
})

const digitChars = "0123456789abcdefghijklmnopqrstuvwxyz"

func genBaseCase(t *rapid.T) *BaseCase {
	base := rapid.IntRange(2, 36).Draw(t, "base")
	if rapid.IntRange(0, 2).Draw(t, "commonbase") == 0 {
		base = []int{2, 8, 16, 36, 3, 11}[rapid.IntRange(0, 5).Draw(t, "cb")]
	}
	if base == 10 {
		base = 16
	}
	maxLen := int(64 / math.Log2(float64(base)))
	n := rapid.IntRange(1, maxLen).Draw(t, "len")
	b := make([]byte, n)
	for i := range b {
		b[i] = digitChars[rapid.IntRange(0, base-1).Draw(t, "digit")]
	}
	s := randCase(t, string(b))
	switch rapid.IntRange(0, 9).Draw(t, "spoil") {
	case 0: // one character that is not a digit of the base
		bad := []string{".", " ", "_", "x", "e", "-", "+", "z", "Z", "9", "8", "2", ".0", "g", "G", ","}[rapid.IntRange(0, 15).Draw(t, "bad")]
		pos := rapid.IntRange(0, len(s)).Draw(t, "pos")
		if (bad == "-" || bad == "+") && pos == 0 {
			pos = len(s)
		}
		s = s[:pos] + bad + s[pos:]
	case 1:
		s = ""
	case 2:
		if base == 16 {
			s = []string{"0x", "0X"}[rapid.IntRange(0, 1).Draw(t, "0x")] + s
			if len(s) > 18 {
				s = s[:18]
			}
		}
	}
	s = genBlanks(t, "pre") + s + genBlanks(t, "post")
	return &BaseCase{S: s, Base: base}
}

func TestToNumberBase(t *testing.T) {
	vf.Rapid(t, func(rt *rapid.T) {
		chkBase.Run(rt, genBaseCase(rt))
	})
}
