// Package c06: coroutines transfer values and control exactly as Lua 5.1 coroutines.
package c06

import (
	"testing"

	"pgregory.net/rapid"

	"verif/dcheck"
	"verif/e1"
	"verif/lgen"
	"verif/vf"
)

func TestMain(m *testing.M)   { vf.Main(m) }
func TestReplay(t *testing.T) { vf.Replay(t) }

// non-trivial: >= 3 transfers of control (resume or yield) in the reference run and >= 4 values emitted
var chkCo = vf.Register("coroutines", dcheck.Oracle(func(c *dcheck.ProgCase, r *e1.ROutcome) (bool, string) {
	return r.In.Stat.Transfers >= 6 && dcheck.Values(r) >= 4, ""
}))

func init() { chkCo.Journal = true }

func TestCoroutines(t *testing.T) {
	vf.Rapid(t, func(rt *rapid.T) { chkCo.Run(rt, dcheck.Gen(rt, lgen.Coroutines())) })
}
