package luaref

import (
	"fmt"
	"math"
	"strconv"
	"strings"
)

// Value is nil | bool | float64 | string | *Table | *Closure | *Builtin | *Userdata | *Coroutine | *OStr
type Value = any

// OStr is a string whose exact text no property fixes: the message of a run-time fault (only its
// position prefix is specified) or the address form of tostring(table).  It can be stored, passed,
// emitted and tested for its type; any operation that would look inside makes the case Unspecified.
type OStr struct {
	Kind     string // "err" | "addr"
	HasPos   bool   // carries a "chunk:line:" prefix
	Lo, Hi   int    // the line must lie in [Lo,Hi]
	Msg      string // text after the prefix when MsgKnown
	MsgKnown bool
	Prefix   string // for addr: "table: ", "function: ", ...
	// NoRoom marks an error raised because the call stack or the value stack is exhausted: an xpcall handler needs room
	// to run, so whether it runs for such an error (and what xpcall then returns after false) is not fixed.
	NoRoom bool
}

// ONum is a line number that is only known to lie within a span of source lines (a statement spread over several
// lines): it can be stored, passed and emitted; looking at its value makes the case Unspecified.
type ONum struct{ Lo, Hi int }

type Cell struct {
	V   Value
	Ver uint32
}

type Closure struct {
	Fn     *FuncExpr
	Upvals []*Cell
	Env    *Table
}

type Builtin struct {
	Name string
	Fn   func(in *Interp, args []Value) []Value
}

type Userdata struct {
	Meta *Table
	Tag  string
}

type Table struct {
	m    map[any]int // key -> index in keys/vals
	keys []any
	vals []Value // nil = deleted (tombstone)
	live int
	npos int // number of live positive-integer keys
	seq  int // 1..seq are all present and seq+1 is absent
	Meta *Table
}

func NewTable() *Table { return &Table{m: map[any]int{}} }

func normKey(k Value) any {
	if f, ok := k.(float64); ok && f == 0 {
		return float64(0) // -0 and +0 are one key
	}
	return k
}

func isPosInt(k any) bool {
	f, ok := k.(float64)
	return ok && f >= 1 && f == math.Floor(f) && !math.IsInf(f, 0)
}

func (t *Table) Get(k Value) Value {
	if k == nil {
		return nil
	}
	if f, ok := k.(float64); ok && f != f {
		return nil
	}
	if i, ok := t.m[normKey(k)]; ok {
		return t.vals[i]
	}
	return nil
}

// Set stores v under k (k must be a valid key: not nil, not NaN).
func (t *Table) Set(k, v Value) {
	k = normKey(k)
	if i, ok := t.m[k]; ok {
		old := t.vals[i]
		if old == nil && v != nil {
			t.live++
			if isPosInt(k) {
				t.npos++
			}
		} else if old != nil && v == nil {
			t.live--
			if isPosInt(k) {
				t.npos--
			}
		}
		t.vals[i] = v
		t.noteSet(k, old, v)
		return
	}
	if v == nil {
		return
	}
	t.m[k] = len(t.keys)
	t.keys = append(t.keys, k)
	t.vals = append(t.vals, v)
	t.live++
	if isPosInt(k) {
		t.npos++
	}
	t.noteSet(k, nil, v)
	if len(t.keys) > 64 && t.live*4 < len(t.keys) {
		t.compact()
	}
}

func (t *Table) compact() {
	// only when no traversal can be in progress is this strictly safe; next() falls back to a scan by key
	nk := make([]any, 0, t.live)
	nv := make([]Value, 0, t.live)
	for i, k := range t.keys {
		if t.vals[i] != nil {
			t.m[k] = len(nk)
			nk = append(nk, k)
			nv = append(nv, t.vals[i])
		} else {
			delete(t.m, k)
		}
	}
	t.keys, t.vals = nk, nv
}

// Next returns the entry after key k in the table's (deterministic, insertion) order.
// ok=false when k is not a key that was ever present (invalid key to next).
func (t *Table) Next(k Value) (nk, nv Value, ok bool) {
	i := 0
	if k != nil {
		j, present := t.m[normKey(k)]
		if !present {
			return nil, nil, false
		}
		i = j + 1
	}
	for ; i < len(t.keys); i++ {
		if t.vals[i] != nil {
			return t.keys[i], t.vals[i], true
		}
	}
	return nil, nil, true
}

// Border returns the length of the proper sequence 1..n held by the table and whether that is the table's only
// border (true exactly when no positive-integer key lies beyond it).
func (t *Table) Border() (int, bool) {
	return t.seq, t.npos == t.seq
}

func (t *Table) noteSet(k any, old, v Value) {
	f, ok := k.(float64)
	if !ok || !isPosInt(k) {
		return
	}
	if old == nil && v != nil {
		if f == float64(t.seq+1) {
			t.seq++
			for t.Get(float64(t.seq+1)) != nil {
				t.seq++
			}
		}
	} else if old != nil && v == nil {
		if f <= float64(t.seq) {
			t.seq = int(f) - 1
		}
	}
}

func (t *Table) Len() int { return t.live }

// ---- type names, tostring, tonumber

func TypeName(v Value) string {
	switch v.(type) {
	case nil:
		return "nil"
	case bool:
		return "boolean"
	case float64, *ONum:
		return "number"
	case *OStr:
		if x, _ := v.(*OStr); x.Kind == "any" {
			unspecified("type of a value that no property fixes")
		}
		return "string"
	case string:
		return "string"
	case *Table:
		return "table"
	case *Closure, *Builtin:
		return "function"
	case *Userdata:
		return "userdata"
	case *Coroutine:
		return "thread"
	}
	return fmt.Sprintf("?%T", v)
}

// NumToStr gives the text of a number where the properties fix it; ok=false means Unspecified.
func NumToStr(f float64) (string, bool) {
	if math.IsNaN(f) || math.IsInf(f, 0) {
		return "", false
	}
	if f == 0 && math.Signbit(f) {
		return "", false
	}
	if f == math.Floor(f) && math.Abs(f) < 9007199254740992 {
		return strconv.FormatInt(int64(f), 10), true // C16: integral values below 2^53 print without exponent or fraction
	}
	// non-integral: %.14g (PUC-Rio) and the shortest round-trip form (gopher-lua) must coincide and use no exponent;
	// the shortest form switches to an exponent from 1e6 on (C16 only demands that the text reads back as the value)
	if math.Abs(f) >= 1e6 {
		return "", false
	}
	s := strconv.FormatFloat(f, 'g', 14, 64)
	if strings.ContainsAny(s, "eE") {
		return "", false
	}
	if v, err := strconv.ParseFloat(s, 64); err != nil || v != f {
		return "", false
	}
	if s2 := strconv.FormatFloat(f, 'f', -1, 64); s2 != s {
		return "", false
	}
	return s, true
}

const (
	numOK = iota
	numNo
	numGrey
)

func isCSpace(c byte) bool {
	return c == ' ' || c == '\t' || c == '\n' || c == '\v' || c == '\f' || c == '\r'
}

// StrToNum: string -> number coercion.  Grey results make a case Unspecified in the core checks
// (the grey zone is the subject of C16).
func StrToNum(s string) (float64, int) {
	i, j := 0, len(s)
	for i < j && isCSpace(s[i]) {
		i++
	}
	for j > i && isCSpace(s[j-1]) {
		j--
	}
	if strings.ContainsAny(s[:i]+s[j:], "\v\f\r") {
		return 0, numGrey
	}
	t := s[i:j]
	if t == "" {
		return 0, numNo
	}
	neg := false
	u := t
	if u[0] == '+' || u[0] == '-' {
		neg = u[0] == '-'
		u = u[1:]
	}
	if u == "" {
		return 0, numNo
	}
	c := u[0]
	if !(c >= '0' && c <= '9' || c == '.') {
		l := strings.ToLower(u)
		if strings.HasPrefix(l, "inf") || strings.HasPrefix(l, "nan") {
			return 0, numGrey
		}
		if t != u {
			return 0, numGrey // sign followed by junk: strtod fails, fine, but keep it out of the core checks
		}
		return 0, numNo
	}
	if len(u) > 1 && u[0] == '0' && u[1] >= '0' && u[1] <= '9' {
		return 0, numGrey // leading zeros: C16
	}
	if len(u) > 1 && u[0] == '0' && (u[1] == 'x' || u[1] == 'X') && t != u {
		return 0, numGrey // signed hex
	}
	v, ok := ParseNumeral(u)
	if !ok {
		l := strings.ToLower(u)
		if strings.ContainsAny(l, "_xpbo") || strings.Contains(l, "inf") || strings.Contains(l, "nan") {
			return 0, numGrey // spellings Go's ParseInt(base 0)/ParseFloat or C99 strtod may accept: C16's subject
		}
		return 0, numNo
	}
	if math.IsInf(v, 0) {
		return 0, numGrey
	}
	if neg {
		v = -v
	}
	return v, numOK
}
