package c10

import (
	"fmt"
	"math"
	"sort"
	"strconv"
	"strings"

	lua "github.com/yuin/gopher-lua"
)

// ---------------------------------------------------------------------------------------------
// Independent anchor for object_ops.
//
// The differential "Go API vs the Lua expression in the same state" is blind to code both sides share (lessThan,
// equals, getField, LState.GetMetatable behind getmetatable(), ...).  Wherever the outcome of an operation is
// decided WITHOUT running a function-valued handler, this file predicts it from the Lua 5.1 manual §2.8
// (gettable_event / settable_event / eq / lt / concat / len events, getmetatable, tostring, next), using nothing but
// type switches, raw table reads and the Metatable fields of the operands.  Where a function handler would have to
// run, where the operand is a string being indexed (string metatable), and in the few places where gopher-lua is
// known to deviate harmlessly from PUC-Rio (number formatting of non-integers, non-function values in __eq /
// __tostring slots) the anchor abstains.

type storeExp struct {
	target string // canonical name of the table that must receive the raw store
}

type anchorExp struct {
	ok     bool
	raised bool
	vals   []string  // expected canonical result names when not raised
	border bool      // objlen of a table: any border is right (predicate, not a value)
	store  *storeExp // settable/setfield/setglobal: where the value must end up
	why    string    // which rule decided
}

func abstain() anchorExp { return anchorExp{} }

func (z *zoo) metaTableOf(v lua.LValue) (*lua.LTable, bool) {
	switch x := v.(type) {
	case *lua.LTable:
		mt, _ := x.Metatable.(*lua.LTable)
		return mt, true
	case *lua.LUserData:
		mt, _ := x.Metatable.(*lua.LTable)
		return mt, true
	case lua.LString:
		return nil, false // string metatable: not modelled
	}
	return nil, true // nil, booleans, numbers, functions: no metatable is ever installed by this harness
}

// metaval: rawget(getmetatable(v) or {}, event); known is false when the metatable is not modelled.
func (z *zoo) metaval(v lua.LValue, event string) (lua.LValue, bool) {
	mt, known := z.metaTableOf(v)
	if !known {
		return lua.LNil, false
	}
	if mt == nil {
		return lua.LNil, true
	}
	return mt.RawGetString(event), true
}

func isFunc(v lua.LValue) bool { _, ok := v.(*lua.LFunction); return ok }

func badKey(k lua.LValue) bool {
	if k == lua.LNil {
		return true
	}
	n, ok := k.(lua.LNumber)
	return ok && math.IsNaN(float64(n))
}

// anchorIndex: manual §2.8 "index" event.
func (z *zoo) anchorIndex(obj, key lua.LValue) anchorExp {
	for loop := 0; loop < 50; loop++ {
		var h lua.LValue
		if t, ok := obj.(*lua.LTable); ok {
			if v := t.RawGet(key); v != lua.LNil {
				return anchorExp{ok: true, vals: []string{z.name(v)}, why: "rawget hit"}
			}
			hv, known := z.metaval(obj, "__index")
			if !known {
				return abstain()
			}
			if hv == lua.LNil {
				return anchorExp{ok: true, vals: []string{"nil"}, why: "no __index"}
			}
			h = hv
		} else {
			hv, known := z.metaval(obj, "__index")
			if !known {
				return abstain()
			}
			if hv == lua.LNil {
				return anchorExp{ok: true, raised: true, why: "indexing a non-table without __index"}
			}
			h = hv
		}
		if isFunc(h) {
			return abstain()
		}
		obj = h
	}
	return abstain()
}

// anchorNewIndex: manual §2.8 "newindex" event.
func (z *zoo) anchorNewIndex(obj, key lua.LValue) anchorExp {
	for loop := 0; loop < 50; loop++ {
		var h lua.LValue
		if t, ok := obj.(*lua.LTable); ok {
			if v := t.RawGet(key); v != lua.LNil {
				return anchorExp{ok: true, store: &storeExp{target: z.name(t)}, why: "existing key: raw store"}
			}
			hv, known := z.metaval(obj, "__newindex")
			if !known {
				return abstain()
			}
			if hv == lua.LNil {
				if badKey(key) {
					return anchorExp{ok: true, raised: true, why: "raw store with a nil/NaN key"}
				}
				return anchorExp{ok: true, store: &storeExp{target: z.name(t)}, why: "no __newindex: raw store"}
			}
			h = hv
		} else {
			hv, known := z.metaval(obj, "__newindex")
			if !known {
				return abstain()
			}
			if hv == lua.LNil {
				return anchorExp{ok: true, raised: true, why: "assigning into a non-table without __newindex"}
			}
			h = hv
		}
		if isFunc(h) {
			return abstain()
		}
		obj = h
	}
	return abstain()
}

func primitiveEqual(a, b lua.LValue) (eq bool, primitive bool) {
	switch x := a.(type) {
	case *lua.LNilType:
		return true, true
	case lua.LBool:
		return x == b.(lua.LBool), true
	case lua.LNumber:
		return float64(x) == float64(b.(lua.LNumber)), true
	case lua.LString:
		return string(x) == string(b.(lua.LString)), true
	}
	return false, false
}

func (z *zoo) anchorEqual(a, b lua.LValue, raw bool) anchorExp {
	t := func(v bool, why string) anchorExp {
		return anchorExp{ok: true, vals: []string{fmt.Sprintf("bool:%v", v)}, why: why}
	}
	if a.Type() != b.Type() {
		return t(false, "different types")
	}
	if eq, prim := primitiveEqual(a, b); prim {
		return t(eq, "primitive equality")
	}
	if a == b {
		return t(true, "same object")
	}
	if raw {
		return t(false, "different objects, raw")
	}
	switch a.(type) {
	case *lua.LTable, *lua.LUserData:
		h1, k1 := z.metaval(a, "__eq")
		h2, k2 := z.metaval(b, "__eq")
		if !k1 || !k2 {
			return abstain()
		}
		if h1 == lua.LNil || h2 == lua.LNil {
			return t(false, "no common __eq")
		}
		if isFunc(h1) && isFunc(h2) && h1 != h2 {
			return t(false, "different __eq handlers")
		}
		return abstain() // a handler runs, or a non-function sits in the slot
	}
	return t(false, "different objects")
}

func (z *zoo) anchorLessThan(a, b lua.LValue) anchorExp {
	t := func(v bool, why string) anchorExp {
		return anchorExp{ok: true, vals: []string{fmt.Sprintf("bool:%v", v)}, why: why}
	}
	raise := func(why string) anchorExp { return anchorExp{ok: true, raised: true, why: why} }
	if a.Type() != b.Type() {
		return raise("comparing different types")
	}
	switch x := a.(type) {
	case lua.LNumber:
		return t(float64(x) < float64(b.(lua.LNumber)), "numbers")
	case lua.LString:
		return t(string(x) < string(b.(lua.LString)), "strings, byte order")
	}
	h1, k1 := z.metaval(a, "__lt")
	h2, k2 := z.metaval(b, "__lt")
	if !k1 || !k2 {
		return abstain()
	}
	if isFunc(h1) && h1 == h2 {
		return abstain()
	}
	return raise("no common __lt handler")
}

// plainConcatPiece: the text a string or a number contributes to a concatenation, when the property fixes it.
func plainConcatPiece(v lua.LValue) (text string, concatenable bool, fixed bool) {
	switch x := v.(type) {
	case lua.LString:
		return string(x), true, true
	case lua.LNumber:
		f := float64(x)
		if f == math.Trunc(f) && math.Abs(f) < 1e14 {
			return strconv.FormatInt(int64(f), 10), true, true
		}
		return "", true, false // number formatting of non-integers is not C10's business
	}
	return "", false, false
}

func (z *zoo) anchorConcat2(a, b lua.LValue) (res lua.LValue, exp anchorExp) {
	ta, ca, fa := plainConcatPiece(a)
	tb, cb, fb := plainConcatPiece(b)
	if ca && cb {
		if !fa || !fb {
			return nil, abstain()
		}
		s := lua.LString(ta + tb)
		return s, anchorExp{ok: true, vals: []string{z.name(s)}, why: "strings/numbers"}
	}
	h, known := z.metaval(a, "__concat")
	if !known {
		return nil, abstain()
	}
	if h == lua.LNil {
		h, known = z.metaval(b, "__concat")
		if !known {
			return nil, abstain()
		}
	}
	if isFunc(h) {
		return nil, abstain()
	}
	return nil, anchorExp{ok: true, raised: true, why: "no __concat handler"}
}

func (z *zoo) anchorLen(a lua.LValue) anchorExp {
	switch x := a.(type) {
	case lua.LString:
		return anchorExp{ok: true, vals: []string{numName(float64(len(string(x))))}, why: "string length in bytes"}
	case *lua.LTable:
		h, known := z.metaval(a, "__len")
		if !known || isFunc(h) {
			return abstain()
		}
		return anchorExp{ok: true, border: true, why: "primitive table length: any border"}
	case *lua.LUserData:
		h, known := z.metaval(a, "__len")
		if !known || isFunc(h) {
			return abstain()
		}
		return anchorExp{ok: true, raised: true, why: "userdata without __len"}
	}
	return abstain()
}

func (z *zoo) anchorGetMetatable(a lua.LValue) anchorExp {
	mt, known := z.metaTableOf(a)
	if !known {
		return abstain()
	}
	if mt == nil {
		return anchorExp{ok: true, vals: []string{"nil"}, why: "no metatable"}
	}
	if f := mt.RawGetString("__metatable"); f != lua.LNil {
		return anchorExp{ok: true, vals: []string{z.name(f)}, why: "__metatable field"}
	}
	return anchorExp{ok: true, vals: []string{z.name(mt)}, why: "the metatable"}
}

func (z *zoo) anchorToString(a lua.LValue) anchorExp {
	v := func(s, why string) anchorExp { return anchorExp{ok: true, vals: []string{s}, why: why} }
	switch x := a.(type) {
	case lua.LString:
		return v(z.name(x), "string is its own text")
	case *lua.LNilType:
		return v(z.name(lua.LString("nil")), "nil")
	case lua.LBool:
		return v(z.name(lua.LString(fmt.Sprintf("%v", bool(x)))), "boolean")
	case lua.LNumber:
		if s, _, fixed := plainConcatPiece(x); fixed {
			return v(z.name(lua.LString(s)), "integral number")
		}
		return abstain()
	case *lua.LTable, *lua.LUserData:
		h, known := z.metaval(a, "__tostring")
		if !known || h != lua.LNil {
			return abstain()
		}
		if n, ok := z.names[a]; ok {
			return v("addrof("+n+")", "default text of a reference value")
		}
	}
	return abstain()
}

// anchor predicts the outcome of op on this copy of the zoo; call it before the operation runs.
func (z *zoo) anchor(op ObjOp) anchorExp {
	a, b, c := z.val(op.A), z.val(op.B), z.val(op.C)
	switch op.Op {
	case "gettable":
		return z.anchorIndex(a, b)
	case "getfield":
		return z.anchorIndex(a, lua.LString(op.Name))
	case "getglobal":
		return z.anchorIndex(z.L.Get(lua.GlobalsIndex), lua.LString(op.Name))
	case "settable":
		return z.anchorNewIndex(a, b)
	case "setfield":
		return z.anchorNewIndex(a, lua.LString(op.Name))
	case "setglobal":
		return z.anchorNewIndex(z.L.Get(lua.GlobalsIndex), lua.LString(op.Name))
	case "equal":
		return z.anchorEqual(a, b, false)
	case "rawequal":
		return z.anchorEqual(a, b, true)
	case "lessthan":
		return z.anchorLessThan(a, b)
	case "concat":
		_, e := z.anchorConcat2(a, b)
		return e
	case "concat3":
		// right associative: a .. (b .. c)
		r, e := z.anchorConcat2(b, c)
		if !e.ok || e.raised {
			return e
		}
		_, e2 := z.anchorConcat2(a, r)
		return e2
	case "objlen":
		return z.anchorLen(a)
	case "getmetatable":
		return z.anchorGetMetatable(a)
	case "tostringmeta":
		return z.anchorToString(a)
	}
	_ = c
	return abstain()
}

func (z *zoo) storeKey(op ObjOp) lua.LValue {
	if op.Op == "settable" {
		return z.val(op.B)
	}
	return lua.LString(op.Name)
}

// checkAnchor compares one side's outcome with the prediction.  side is "Go API" or "Lua expression".
func (r *objRun) checkAnchor(z *zoo, side, label string, op ObjOp, exp anchorExp, got outcome) {
	if !exp.ok {
		return
	}
	ref := fmt.Sprintf("Lua 5.1 manual §2.8 (%s)", exp.why)
	if exp.raised != got.raised {
		r.fail("%s: %s gave %s, but by the %s the operation %s", label, side, got, ref,
			map[bool]string{true: "raises an error", false: "does not raise"}[exp.raised])
		return
	}
	if exp.raised {
		return
	}
	if len(z.log) != 0 {
		r.fail("%s: %s ran handlers [%s] although none is involved by the %s", label, side, strings.Join(z.log, " "), ref)
	}
	switch {
	case exp.border:
		t := z.val(op.A).(*lua.LTable)
		if len(got.vals) != 1 || !strings.HasPrefix(got.vals[0], "num:") {
			r.fail("%s: %s gave %s, expected a length", label, side, got)
			return
		}
		f, err := strconv.ParseFloat(strings.TrimPrefix(got.vals[0], "num:"), 64)
		n := int(f)
		if err != nil || float64(n) != f || n < 0 {
			r.fail("%s: %s gave %s, not a non-negative integer", label, side, got)
			return
		}
		if (n > 0 && t.RawGetInt(n) == lua.LNil) || t.RawGetInt(n+1) != lua.LNil {
			r.fail("%s: %s gave length %d, which is not a border of the table (t[n]=%s, t[n+1]=%s)", label, side, n,
				z.name(t.RawGetInt(n)), z.name(t.RawGetInt(n+1)))
		}
	case exp.store != nil:
		target, ok := z.byName[exp.store.target].(*lua.LTable)
		if !ok {
			r.fail("harness: anchor names unknown store target %q", exp.store.target)
			return
		}
		want := z.name(z.val(op.C))
		if gotv := z.name(target.RawGet(z.storeKey(op))); gotv != want {
			r.fail("%s: after %s, rawget(%s, key) is %s, expected %s by the %s", label, side, exp.store.target, gotv, want, ref)
		}
	default:
		if strings.Join(got.vals, ",") != strings.Join(exp.vals, ",") {
			r.fail("%s: %s gave %s, expected values(%s) by the %s", label, side, got, strings.Join(exp.vals, ","), ref)
		}
	}
}

// checkTraversal: every raw pair of the table exactly once (compared with what the table holds, read key by key).
func (r *objRun) checkTraversal(z *zoo, side, label string, t *lua.LTable, seq []string) {
	var want []string
	t.ForEach(func(k, v lua.LValue) {
		want = append(want, z.name(k)+"="+z.name(v))
	})
	got := append([]string(nil), seq...)
	if n := len(got); n > 0 && got[n-1] == "nil=nil" {
		got = got[:n-1]
	} else {
		r.fail("%s: %s traversal does not end with nil: [%s]", label, side, strings.Join(seq, " "))
		return
	}
	sort.Strings(want)
	sort.Strings(got)
	if strings.Join(want, " ") != strings.Join(got, " ") {
		r.fail("%s: %s traversal visited [%s], the table holds [%s]", label, side, strings.Join(got, " "), strings.Join(want, " "))
	}
}
