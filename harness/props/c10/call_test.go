package c10

import (
	"errors"
	"fmt"
	"strings"
	"testing"

	lua "github.com/yuin/gopher-lua"
	"pgregory.net/rapid"

	"verif/vf"
)

// ---------------------------------------------------------------------------------------------
// (ii) call contract

type CallSpec struct {
	API      string `json:"api"`   // Call | PCall | CallByParam | CallByParamP
	NArgs    int    `json:"nargs"` // arguments pushed after the function
	NRet     int    `json:"nret"`  // -1: MultRet
	Callee   string `json:"callee"`
	NPar     int    `json:"npar,omitempty"`    // Lua callees: declared fixed parameters
	Produced int    `json:"produced"`          // results the callee produces
	Extra    int    `json:"extra,omitempty"`   // values the callee leaves below its results (go: pushed, lua: locals)
	Shape    string `json:"shape,omitempty"`   // Go callees: "" results pushed above the arguments | clear: SetTop(0) first | overwrite: results written over the arguments
	Fail     string `json:"fail,omitempty"`    // "" errstr errtab gopanic goerr luart
	Handler  string `json:"handler,omitempty"` // "" go lua go_multi go_fail lua_fail   (protected calls only)
}

type CallCase struct {
	Reg    RegCfg     `json:"reg"`
	Depth0 bool       `json:"depth0,omitempty"` // the calls are made from the top level
	Top    TopSpec    `json:"top"`
	Chain  []Frame    `json:"chain"`
	NArgs  int        `json:"nargs"` // arguments of the calling host function
	Below  int        `json:"below"` // values it pushes before the first call
	Calls  []CallSpec `json:"calls"`
	Ret    int        `json:"ret"`
	Rounds int        `json:"rounds"`
}

var calleeKinds = []string{"go", "go", "lua", "luava", "lua_va_ret", "lua_ret_params", "lua_tail_go", "lua_tail_lua", "lua_open",
	"ctable_go", "ctable_lua", "cud_go", "cud_lua", "nc_nil", "nc_num", "nc_table"}

func apiProtected(api string) bool { return api == "PCall" || api == "CallByParamP" }

func (s CallSpec) notCallable() bool { return strings.HasPrefix(s.Callee, "nc_") }
func (s CallSpec) fails() bool       { return s.Fail != "" || s.notCallable() }
func (s CallSpec) hasSelf() bool {
	return strings.HasPrefix(s.Callee, "ctable_") || strings.HasPrefix(s.Callee, "cud_")
}
func (s CallSpec) luaImpl() bool {
	switch s.Callee {
	case "lua", "luava", "lua_va_ret", "lua_ret_params", "lua_tail_go", "lua_tail_lua", "lua_open", "ctable_lua", "cud_lua":
		return true
	}
	return false
}

func cArg(ci, k int) lua.LValue   { return lua.LString(fmt.Sprintf("c%d.a%d", ci, k)) }
func cRes(ci, k int) lua.LValue   { return lua.LString(fmt.Sprintf("c%d.r%d", ci, k)) }
func cExtra(ci, k int) lua.LValue { return lua.LString(fmt.Sprintf("c%d.x%d", ci, k)) }

type callRun struct {
	*chainRun
	c        *CallCase
	errTable *lua.LTable
	seen     map[int][][]lua.LValue // per call index: what each invocation of the callee saw as arguments
	hseen    map[int][][]lua.LValue // per call index: what each invocation of the handler saw
	seenFn   *lua.LFunction
}

func lq(v lua.LValue) string { return fmt.Sprintf("%q", string(v.(lua.LString))) }

func stackValues(L *lua.LState, from int) []lua.LValue {
	var out []lua.LValue
	for i := from; i <= L.GetTop(); i++ {
		out = append(out, L.Get(i))
	}
	return out
}

// raise makes a Go function fail in the requested way (after it has already pushed partial results).
func (r *callRun) raise(L *lua.LState, ci int, kind string) {
	switch kind {
	case "errtab":
		L.Error(r.errTable, 1)
	case "gopanic":
		panic(fmt.Sprintf("gopanic%d", ci))
	case "goerr":
		panic(errors.New(fmt.Sprintf("gopanic%d", ci)))
	default:
		L.RaiseError("boom%d", ci)
	}
}

// luaFailStmt is the statement a Lua function fails with.
func luaFailStmt(ci int, kind string) string {
	switch kind {
	case "errtab":
		return "error(E)"
	case "luart":
		return "local z = nil; z.f = 1"
	case "":
		return ""
	}
	return fmt.Sprintf("error(\"boom%d\")", ci)
}

// producer is the Go function a Lua callee tail-calls (or calls in open-result position): leaves Extra values
// below, produces results from..Produced, or fails after pushing them.
func (r *callRun) producer(ci int, s CallSpec, from int) *lua.LFunction {
	return r.L.NewFunction(func(L *lua.LState) int {
		for k := 1; k <= s.Extra; k++ {
			L.Push(cExtra(ci, k))
		}
		n := 0
		for k := from; k <= s.Produced; k++ {
			L.Push(cRes(ci, k))
			n++
		}
		if s.Fail != "" {
			r.raise(L, ci, s.Fail)
		}
		return n
	})
}

func (r *callRun) instantiate(src string, args ...lua.LValue) (lua.LValue, error) {
	L := r.L
	chunk, err := L.LoadString(src)
	if err != nil {
		return nil, fmt.Errorf("harness: generated Lua does not compile: %v\n%s", err, src)
	}
	L.Push(chunk)
	for _, a := range args {
		L.Push(a)
	}
	if err := L.PCall(len(args), 1, nil); err != nil {
		return nil, fmt.Errorf("harness: instantiating generated Lua failed: %v", err)
	}
	f := L.Get(-1)
	L.Pop(1)
	return f, nil
}

// makeCallee builds the value that is called, what the callee must see as arguments and what it produces.
func (r *callRun) makeCallee(ci int, s CallSpec) (callee lua.LValue, sees []lua.LValue, results []lua.LValue, err error) {
	L := r.L
	args := make([]lua.LValue, s.NArgs)
	for k := range args {
		args[k] = cArg(ci, k+1)
	}
	fixedResults := func(from int) []lua.LValue {
		var out []lua.LValue
		for k := from; k <= s.Produced; k++ {
			out = append(out, cRes(ci, k))
		}
		return out
	}
	switch s.Callee {
	case "nc_nil":
		return lua.LNil, nil, nil, nil
	case "nc_num":
		return lua.LNumber(42), nil, nil, nil
	case "nc_table":
		t := L.NewTable()
		mt := L.NewTable()
		mt.RawSetString("__call", lua.LNumber(1)) // not a function: still not callable
		t.Metatable = mt
		return t, nil, nil, nil
	}
	var self lua.LValue
	eff := args
	if s.hasSelf() {
		if strings.HasPrefix(s.Callee, "cud_") {
			self = L.NewUserData()
		} else {
			self = L.NewTable()
		}
		eff = append([]lua.LValue{self}, args...)
	}
	var fn lua.LValue
	if !s.luaImpl() {
		fn = L.NewFunction(func(L *lua.LState) int {
			r.seen[ci] = append(r.seen[ci], stackValues(L, 1))
			switch {
			case s.Shape == "clear":
				L.SetTop(0)
			case s.Shape == "overwrite" && s.Produced > 0 && L.GetTop() >= s.Produced:
				// the results take the place of the arguments; the list ends with them
				for k := 1; k <= s.Produced; k++ {
					L.Replace(k, cRes(ci, k))
				}
				L.SetTop(s.Produced)
				if s.Fail != "" {
					r.raise(L, ci, s.Fail)
				}
				return s.Produced
			}
			for k := 1; k <= s.Extra; k++ {
				L.Push(cExtra(ci, k))
			}
			for k := 1; k <= s.Produced; k++ {
				L.Push(cRes(ci, k))
			}
			if s.Fail != "" {
				r.raise(L, ci, s.Fail)
			}
			return s.Produced
		})
		sees = eff
		results = fixedResults(1)
	} else {
		vararg := s.Callee != "lua"
		var params []string
		for k := 1; k <= s.NPar; k++ {
			params = append(params, fmt.Sprintf("p%d", k))
		}
		seenArgs := append([]string{fmt.Sprint(ci)}, params...)
		if vararg {
			params = append(params, "...")
			seenArgs = append(seenArgs, "...")
		}
		var b strings.Builder
		b.WriteString("local seen, E, prod, error = ...\n")
		fmt.Fprintf(&b, "return function(%s)\n  seen(%s)\n", strings.Join(params, ", "), strings.Join(seenArgs, ", "))
		if s.Extra > 0 {
			var xn, xv []string
			for k := 1; k <= s.Extra; k++ {
				xn = append(xn, fmt.Sprintf("x%d", k))
				xv = append(xv, lq(cExtra(ci, k)))
			}
			fmt.Fprintf(&b, "  local %s = %s\n", strings.Join(xn, ", "), strings.Join(xv, ", "))
		}
		var lits []string
		for k := 1; k <= s.Produced; k++ {
			lits = append(lits, lq(cRes(ci, k)))
		}
		// what the callee sees
		n := s.NPar
		if vararg && len(eff) > n {
			n = len(eff)
		}
		sees = make([]lua.LValue, n)
		for k := range sees {
			if k < len(eff) {
				sees[k] = eff[k]
			} else {
				sees[k] = lua.LNil
			}
		}
		var prod lua.LValue = lua.LNil
		switch s.Callee {
		case "lua", "luava", "ctable_lua", "cud_lua":
			if s.Fail != "" && len(lits) > 0 {
				// partial results exist in registers when the error is raised
				var yn []string
				for k := range lits {
					yn = append(yn, fmt.Sprintf("y%d", k+1))
				}
				fmt.Fprintf(&b, "  local %s = %s\n", strings.Join(yn, ", "), strings.Join(lits, ", "))
			}
			if st := luaFailStmt(ci, s.Fail); st != "" {
				fmt.Fprintf(&b, "  %s\n", st)
			}
			fmt.Fprintf(&b, "  return %s\n", strings.Join(lits, ", "))
			results = fixedResults(1)
		case "lua_ret_params":
			// returns its own leading parameters: values that sit in registers directly below other live registers (the
			// remaining parameters, the locals), not in fresh registers at the top
			if st := luaFailStmt(ci, s.Fail); st != "" {
				fmt.Fprintf(&b, "  %s\n", st)
			}
			np := s.Produced
			if np > s.NPar {
				np = s.NPar
			}
			var ps []string
			for k := 1; k <= np; k++ {
				ps = append(ps, fmt.Sprintf("p%d", k))
			}
			fmt.Fprintf(&b, "  return %s\n", strings.Join(ps, ", "))
			results = append(results, sees[:np]...)
		case "lua_va_ret":
			if st := luaFailStmt(ci, s.Fail); st != "" {
				fmt.Fprintf(&b, "  %s\n", st)
			}
			b.WriteString("  return ...\n")
			if len(eff) > s.NPar {
				results = append(results, eff[s.NPar:]...)
			}
		case "lua_tail_go":
			prod = r.producer(ci, s, 1)
			b.WriteString("  return prod(...)\n")
			results = fixedResults(1)
		case "lua_tail_lua":
			var pb strings.Builder
			pb.WriteString("local E, error = ...\nreturn function(...)\n  local w1, w2 = 1, 2\n")
			if st := luaFailStmt(ci, s.Fail); st != "" {
				fmt.Fprintf(&pb, "  %s\n", st)
			}
			fmt.Fprintf(&pb, "  return %s\nend\n", strings.Join(lits, ", "))
			p, e := r.instantiate(pb.String(), r.errTable, L.GetGlobal("error"))
			if e != nil {
				return nil, nil, nil, e
			}
			prod = p
			b.WriteString("  return prod(...)\n")
			results = fixedResults(1)
		case "lua_open":
			if s.Produced >= 1 {
				prod = r.producer(ci, s, 2)
				fmt.Fprintf(&b, "  return %s, prod(...)\n", lits[0])
			} else {
				prod = r.producer(ci, s, 1)
				b.WriteString("  return (prod(...))\n") // truncated to one value: nil
			}
			results = fixedResults(1)
			if s.Produced == 0 {
				results = []lua.LValue{lua.LNil}
			}
		}
		b.WriteString("end\n")
		f, e := r.instantiate(b.String(), r.seenFn, r.errTable, prod, L.GetGlobal("error"))
		if e != nil {
			return nil, nil, nil, e
		}
		fn = f
	}
	if self != nil {
		mt := L.NewTable()
		mt.RawSetString("__call", fn)
		switch o := self.(type) {
		case *lua.LTable:
			o.Metatable = mt
		case *lua.LUserData:
			o.Metatable = mt
		}
		return self, sees, results, nil
	}
	return fn, sees, results, nil
}

// makeHandler builds the error handler and the value PCall must hand back as the error object.
func (r *callRun) makeHandler(ci int, kind string) (h *lua.LFunction, result lua.LValue, err error) {
	L := r.L
	if kind == "" {
		return nil, nil, nil
	}
	ht := L.NewTable()
	record := L.NewFunction(func(L *lua.LState) int {
		r.hseen[ci] = append(r.hseen[ci], stackValues(L, 1))
		return 0
	})
	switch kind {
	case "go":
		return L.NewFunction(func(L *lua.LState) int {
			r.hseen[ci] = append(r.hseen[ci], stackValues(L, 1))
			L.Push(ht)
			return 1
		}), ht, nil
	case "go_multi":
		return L.NewFunction(func(L *lua.LState) int {
			r.hseen[ci] = append(r.hseen[ci], stackValues(L, 1))
			L.Push(lua.LString("below"))
			L.Push(ht)
			L.Push(lua.LString("second"))
			return 2
		}), ht, nil
	case "go_fail":
		return L.NewFunction(func(L *lua.LState) int {
			r.hseen[ci] = append(r.hseen[ci], stackValues(L, 1))
			L.Push(lua.LString("partial"))
			L.RaiseError("handler failed")
			return 1
		}), nil, nil
	case "lua", "lua_fail":
		body := "return HT"
		if kind == "lua_fail" {
			body = "error(\"handler failed\")"
		}
		f, e := r.instantiate("local record, HT, error = ...\nreturn function(...)\n  record(...)\n  local a, b = 1, 2\n  "+body+"\nend\n",
			record, ht, L.GetGlobal("error"))
		if e != nil {
			return nil, nil, e
		}
		if kind == "lua_fail" {
			return f.(*lua.LFunction), nil, nil
		}
		return f.(*lua.LFunction), ht, nil
	}
	return nil, nil, fmt.Errorf("harness: unknown handler kind %q", kind)
}

// matchErrObject: what the property lets us say about the error value of a failed call.
func (r *callRun) matchErrObject(who string, ci int, s CallSpec, obj lua.LValue) {
	if obj == nil {
		r.fail("%s call %d: error object is a Go nil", who, ci)
		return
	}
	switch {
	case s.notCallable() || s.Fail == "luart":
		if str, ok := obj.(lua.LString); !ok || len(str) == 0 {
			r.fail("%s call %d: error value is %s, expected a message string", who, ci, r.env.desc(obj))
		}
	case s.Fail == "errtab":
		if obj != lua.LValue(r.errTable) {
			r.fail("%s call %d: error value is %s, expected the very table that was raised", who, ci, r.env.desc(obj))
		}
	case s.Fail == "gopanic" || s.Fail == "goerr":
		if str, ok := obj.(lua.LString); !ok || !strings.Contains(string(str), fmt.Sprintf("gopanic%d", ci)) {
			r.fail("%s call %d: error value is %s, expected a string with the panic text", who, ci, r.env.desc(obj))
		}
	default:
		if str, ok := obj.(lua.LString); !ok || !strings.HasSuffix(string(str), fmt.Sprintf("boom%d", ci)) {
			r.fail("%s call %d: error value is %s, expected the raised message", who, ci, r.env.desc(obj))
		}
	}
}

func sameList(a, b []lua.LValue) bool {
	if len(a) != len(b) {
		return false
	}
	for i := range a {
		if a[i] != b[i] {
			return false
		}
	}
	return true
}

func (r *callRun) descList(vs []lua.LValue) string {
	parts := make([]string, len(vs))
	for i, v := range vs {
		parts[i] = r.env.desc(v)
	}
	return "[" + strings.Join(parts, ", ") + "]"
}

// body is what the calling activation does; exp is its expected list on entry.
func (r *callRun) body(L *lua.LState, who string, exp []expv) (completed bool) {
	c := r.c
	if !r.expectStack(L, who, "on entry", exp) {
		return false
	}
	for k := 1; k <= c.Below; k++ {
		v := lua.LString(fmt.Sprintf("b.%d", k))
		L.Push(v)
		exp = append(exp, expv{v: v})
	}
	for ci, s := range c.Calls {
		r.seen[ci], r.hseen[ci] = nil, nil
		callee, sees, results, err := r.makeCallee(ci, s)
		if err != nil {
			r.fail("%v", err)
			return false
		}
		var h *lua.LFunction
		var hres lua.LValue
		if apiProtected(s.API) {
			h, hres, err = r.makeHandler(ci, s.Handler)
			if err != nil {
				r.fail("%v", err)
				return false
			}
		}
		if !r.expectStack(L, who, fmt.Sprintf("before call %d", ci), exp) {
			return false
		}
		args := make([]lua.LValue, s.NArgs)
		for k := range args {
			args[k] = cArg(ci, k+1)
		}
		sp0 := lua.VerifSnapshot(L).Sp
		var cerr error
		switch s.API {
		case "Call":
			L.Push(callee)
			for _, a := range args {
				L.Push(a)
			}
			L.Call(s.NArgs, s.NRet)
		case "PCall":
			L.Push(callee)
			for _, a := range args {
				L.Push(a)
			}
			cerr = L.PCall(s.NArgs, s.NRet, h)
		case "CallByParam":
			cerr = L.CallByParam(lua.P{Fn: callee, NRet: s.NRet, Protect: false}, args...)
		case "CallByParamP":
			cerr = L.CallByParam(lua.P{Fn: callee, NRet: s.NRet, Protect: true, Handler: h}, args...)
		default:
			r.fail("harness: unknown api %q", s.API)
			return false
		}
		when := fmt.Sprintf("after call %d (%s nargs=%d nret=%d callee=%s produced=%d fail=%q handler=%q)", ci, s.API, s.NArgs, s.NRet,
			s.Callee, s.Produced, s.Fail, s.Handler)
		// --- the contract
		if s.fails() {
			if !apiProtected(s.API) {
				r.fail("%s %s: an unprotected call returned although the callee raised an error", who, when)
				return false
			}
			if cerr == nil {
				r.fail("%s %s: protected call returned nil although the callee raised an error", who, when)
			} else if ae, ok := cerr.(*lua.ApiError); !ok {
				r.fail("%s %s: error is %T, not *ApiError", who, when, cerr)
			} else {
				switch s.Handler {
				case "":
					r.matchErrObject(who, ci, s, ae.Object)
				case "go", "lua", "go_multi":
					if ae.Object != hres {
						r.fail("%s %s: error object is %s, expected the value the handler returned", who, when, r.env.desc(ae.Object))
					}
				}
			}
			if s.Handler != "" {
				if len(r.hseen[ci]) != 1 {
					r.fail("%s %s: handler ran %d times, expected once", who, when, len(r.hseen[ci]))
				} else if hs := r.hseen[ci][0]; len(hs) != 1 {
					r.fail("%s %s: handler received %d arguments, expected 1", who, when, len(hs))
				} else {
					r.matchErrObject(who+" handler argument", ci, s, hs[0])
				}
			}
			// neither arguments nor partial results stay
		} else {
			if cerr != nil {
				r.fail("%s %s: call returned an error although nothing was raised: %v", who, when, firstLine(cerr.Error()))
			}
			if len(r.hseen[ci]) != 0 {
				r.fail("%s %s: handler ran although nothing was raised", who, when)
			}
			exp = append(exp, adjust(exact(results...), s.NRet)...)
		}
		if !s.notCallable() {
			if len(r.seen[ci]) != 1 {
				r.fail("%s %s: callee ran %d times, expected once", who, when, len(r.seen[ci]))
			} else if !sameList(r.seen[ci][0], sees) {
				r.fail("%s %s: callee saw arguments %s, expected %s", who, when, r.descList(r.seen[ci][0]), r.descList(sees))
			}
		}
		if sp1 := lua.VerifSnapshot(L).Sp; sp1 != sp0 {
			r.fail("%s %s: call-frame depth is %d, was %d before the call", who, when, sp1, sp0)
		}
		if !r.expectStack(L, who, when, exp) {
			return false
		}
	}
	return true
}

var chkCall = vf.Register("call_contract", callOracle)

// chkCallMatrix runs the same oracle over the enumerated (not sampled) sub-space of TestCallMatrix.
var chkCallMatrix = vf.Register("call_matrix", callOracle)

func callOracle(k *vf.C, c *CallCase) error {
	L := newState(c.Reg)
	defer L.Close()
	env := newValEnv(L)
	cr := &chainRun{L: L, env: env, top: c.Top, frames: c.Chain, innerNArgs: c.NArgs}
	if c.Depth0 {
		cr.frames = nil
	}
	r := &callRun{chainRun: cr, c: c, errTable: L.NewTable(), seen: map[int][][]lua.LValue{}, hseen: map[int][][]lua.LValue{}}
	r.seenFn = L.NewFunction(func(L *lua.LState) int {
		ci, ok := L.Get(1).(lua.LNumber)
		if !ok {
			r.fail("harness: seen() without call index")
			return 0
		}
		r.seen[int(ci)] = append(r.seen[int(ci)], stackValues(L, 2))
		return 0
	})
	// does an unprotected call fail?  then the calling activation is aborted there
	aborts := false
	executed := 0
	for _, s := range c.Calls {
		executed++
		if s.fails() && !apiProtected(s.API) {
			aborts = true
			break
		}
	}
	ret := c.Ret
	if ret < 0 {
		ret = 0
	}
	n := len(cr.frames)
	for i := 1; i <= ret; i++ {
		cr.innerRes = append(cr.innerRes, markVal(n, i))
	}
	cr.innerFails = aborts

	rounds := c.Rounds
	if rounds < 1 {
		rounds = 1
	}
	if c.Depth0 {
		for round := 0; round < rounds && len(cr.problems) == 0; round++ {
			var exp []expv
			for i := 1; i <= c.Top.Sent; i++ {
				L.Push(sentVal(-1, i))
				exp = append(exp, expv{v: sentVal(-1, i)})
			}
			panicked := false
			var pv any
			func() {
				defer func() {
					if rc := recover(); rc != nil {
						panicked, pv = true, rc
					}
				}()
				r.body(L, "top-level", exp)
			}()
			if panicked != aborts && len(cr.problems) == 0 {
				if panicked {
					cr.fail("top-level: Go panic although every failing call was protected: %v", firstLine(fmt.Sprint(pv)))
				}
			}
			if aborts {
				// README: "If Protect is false, GopherLua will panic instead of returning an error value"; the state of the
				// stack after an error that nobody caught is not fixed by the property: stop here.
				if !panicked && len(cr.problems) == 0 {
					cr.fail("top-level: unprotected failing call neither returned nor panicked")
				}
				break
			}
			L.SetTop(0)
		}
	} else {
		cr.innerBody = func(L *lua.LState) int {
			if !r.body(L, "caller", exact(cr.argsOf(n)...)) {
				return 0
			}
			for i := 1; i <= ret; i++ {
				L.Push(markVal(n, i))
			}
			return ret
		}
		if err := cr.build(); err != nil {
			return err
		}
		for round := 0; round < rounds && len(cr.problems) == 0; round++ {
			cr.run()
		}
	}
	if err := cr.err(); err != nil {
		return err
	}

	depth := 0
	if !c.Depth0 {
		depth = len(c.Chain) + 1
	}
	k.Class(fmt.Sprintf("depth:%d", depth))
	k.Class(c.Reg.class())
	if c.Below >= 100 && c.Reg.Max > 0 {
		k.Class("calls_near_registry_capacity")
	}
	chainClasses(k, cr.frames)
	nontrivial := false
	for i, s := range c.Calls {
		if i >= executed {
			break
		}
		k.Class("api:" + s.API)
		k.Class("callee:" + s.Callee)
		if !s.luaImpl() && !s.notCallable() && s.Shape != "" {
			k.Class("go_callee_shape:" + s.Shape)
		}
		k.Class(fmt.Sprintf("nret:%d", s.NRet))
		k.Class(fmt.Sprintf("nargs:%d", s.NArgs))
		k.Class(fmt.Sprintf("produced:%d", s.Produced))
		if s.fails() {
			f := s.Fail
			if s.notCallable() {
				f = "notcallable"
			}
			k.Class("fail:" + f)
			if apiProtected(s.API) {
				k.Class("outcome:failed_protected")
				k.Class("handler:" + map[bool]string{true: "none", false: s.Handler}[s.Handler == ""])
			} else {
				k.Class("outcome:failed_unprotected")
			}
		} else {
			k.Class("outcome:success")
			switch {
			case s.NRet < 0:
				k.Class("adjust:all")
			case s.NRet > len(resultsCount(s)):
				k.Class("adjust:nil_padded")
			case s.NRet < len(resultsCount(s)):
				k.Class("adjust:truncated")
			default:
				k.Class("adjust:exact")
			}
		}
		if depth >= 1 && (s.fails() || s.NRet != s.Produced) {
			nontrivial = true
		}
	}
	if nontrivial {
		k.Nontrivial(vf.Hash("call", fmt.Sprintf("%v|%v|%d|%d", c.Chain, c.Calls, c.NArgs, c.Below)))
		k.Sample(fmt.Sprintf("call/depth%d", depth), 1, c)
	}
	return nil
}

// resultsCount: only the number of results matters for the classes.
func resultsCount(s CallSpec) []struct{} {
	n := s.Produced
	switch s.Callee {
	case "lua_ret_params":
		if n > s.NPar {
			n = s.NPar
		}
	case "lua_va_ret":
		n = s.NArgs - s.NPar
		if s.hasSelf() {
			n++
		}
		if n < 0 {
			n = 0
		}
	case "lua_open":
		if s.Produced == 0 {
			n = 1
		}
	}
	return make([]struct{}, n)
}

// ---------------------------------------------------------------------------------------------
// generator

func genCallSpec(t *rapid.T, allowUnprotectedFailure bool) CallSpec {
	s := CallSpec{
		API:      rapid.SampledFrom([]string{"Call", "PCall", "PCall", "CallByParam", "CallByParamP", "CallByParamP"}).Draw(t, "api"),
		NArgs:    rapid.IntRange(0, 5).Draw(t, "cnargs"),
		NRet:     rapid.SampledFrom([]int{-1, 0, 1, 3, 2, 5}).Draw(t, "cnret"),
		Callee:   rapid.SampledFrom(calleeKinds).Draw(t, "callee"),
		NPar:     rapid.IntRange(0, 3).Draw(t, "cnpar"),
		Produced: rapid.IntRange(0, 5).Draw(t, "produced"),
		Extra:    rapid.IntRange(0, 3).Draw(t, "extra"),
		Shape:    rapid.SampledFrom([]string{"", "", "clear", "overwrite"}).Draw(t, "shape"),
	}
	if rapid.IntRange(0, 2).Draw(t, "fails") == 0 {
		s.Fail = rapid.SampledFrom([]string{"errstr", "errtab", "gopanic", "goerr", "luart"}).Draw(t, "failkind")
		// a Lua function cannot Go-panic, a Go function cannot hit a Lua runtime error: map to what the callee kind can do
		goRaises := !s.luaImpl() || s.Callee == "lua_tail_go" || s.Callee == "lua_open"
		if goRaises && s.Fail == "luart" {
			s.Fail = "errstr"
		}
		if !goRaises && (s.Fail == "gopanic" || s.Fail == "goerr") {
			s.Fail = "luart"
		}
	}
	if s.notCallable() {
		s.Fail = ""
	}
	if s.fails() && !apiProtected(s.API) && !allowUnprotectedFailure {
		s.API = map[string]string{"Call": "PCall", "CallByParam": "CallByParamP"}[s.API]
	}
	if apiProtected(s.API) {
		s.Handler = rapid.SampledFrom([]string{"", "", "go", "lua", "go_multi", "go_fail", "lua_fail"}).Draw(t, "handler")
	}
	return s
}

func genCallCase(t *rapid.T) *CallCase {
	c := &CallCase{Reg: genRegCfg(t), Top: genTop(t)}
	c.Depth0 = rapid.IntRange(0, 5).Draw(t, "depth0") == 0
	if !c.Depth0 {
		c.Chain = genChain(t, 3)
		c.NArgs = rapid.IntRange(0, 4).Draw(t, "nargs")
		c.Ret = rapid.IntRange(0, 2).Draw(t, "ret")
	}
	// a few values, or enough of them that call frames, results and nil padding cross the capacity of a 128-slot
	// growable registry
	c.Below = rapid.SampledFrom([]int{0, 1, 2, 3, 4, 1, 2, 100, 118, 122, 125, 127, 128, 131}).Draw(t, "below")
	n := rapid.IntRange(1, 3).Draw(t, "ncalls")
	for i := 0; i < n; i++ {
		// an unprotected failing call ends the calling activation: only as the last call, and not too often
		c.Calls = append(c.Calls, genCallSpec(t, i == n-1 && rapid.IntRange(0, 2).Draw(t, "allow_abort") == 0))
	}
	c.Rounds = rapid.IntRange(1, 2).Draw(t, "rounds")
	return c
}

func TestCallContract(t *testing.T) {
	vf.Rapid(t, func(rt *rapid.T) {
		chkCall.Run(rt, genCallCase(rt))
	})
}

// TestCallMatrix enumerates every combination of
//
//	API x callee kind x nargs 0..5 x NRet {MultRet,0,1,2,3,5} x produced 0..5 x {succeeds, raises} (x handler {none, Go} when protected and raising)
//
// once at top level and once inside a host function that a Lua function calls (so LocalBase != 0 and the caller owns
// registers below).  The property quantifies over "all (nargs, NRet, results produced) combinations for Lua and Go
// callees": this sub-space is covered completely, not sampled.
func TestCallMatrix(t *testing.T) {
	si, sn := vf.Shard()
	apis := []string{"Call", "PCall", "CallByParam", "CallByParamP"}
	callees := []string{"go", "lua", "luava", "lua_va_ret", "lua_ret_params", "lua_tail_go", "lua_tail_lua", "lua_open", "ctable_go", "ctable_lua", "cud_go", "cud_lua"}
	nrets := []int{-1, 0, 1, 2, 3, 5}
	n := 0
	for _, depth0 := range []bool{true, false} {
		for _, api := range apis {
			for _, callee := range callees {
				for nargs := 0; nargs <= 5; nargs++ {
					for _, nret := range nrets {
						for produced := 0; produced <= 5; produced++ {
							for _, fail := range []string{"", "errstr"} {
								handlers := []string{""}
								if fail != "" && apiProtected(api) {
									handlers = []string{"", "go"}
								}
								for _, h := range handlers {
									n++
									if n%sn != si {
										continue
									}
									spec := CallSpec{API: api, NArgs: nargs, NRet: nret, Callee: callee, NPar: (nargs + produced) % 3, Produced: produced,
										Extra: (nargs + nret + 1) % 3, Fail: fail, Handler: h}
									c := &CallCase{Reg: RegCfg{Size: 128, Max: 128 + 8192, Step: 1 + n%5}, Depth0: depth0,
										Top: TopSpec{Sent: 2, Via: "PCall", NRet: -1}, Below: 1 + n%3, Calls: []CallSpec{spec}, Rounds: 1}
									if !depth0 {
										c.Chain = []Frame{{Kind: "lua", NArgs: 1, NPar: 1, VarArg: true, Sent: 2, Pend: 1, Via: "call", NRet: -1, Ret: 1}}
										c.NArgs = 2
										c.Ret = 1
									}
									chkCallMatrix.Run(t, c)
								}
							}
						}
					}
				}
			}
		}
	}
	// frame-depth sweep: the same few calls with 1..41 activations below them, on both call-frame stack implementations
	// (the auto-growing one works in segments of 8 frames: finding C10-SETSP-SEGMENT sat exactly on a segment boundary)
	sweep := []CallSpec{
		{API: "PCall", NArgs: 1, NRet: 2, Callee: "nc_nil"},
		{API: "CallByParamP", NArgs: 2, NRet: -1, Callee: "nc_table", Handler: "go"},
		{API: "PCall", NArgs: 2, NRet: 3, Callee: "go", Produced: 2, Extra: 1},
		{API: "PCall", NArgs: 1, NRet: 1, Callee: "luava", NPar: 1, Produced: 3, Fail: "errtab", Handler: "lua"},
		{API: "CallByParamP", NArgs: 0, NRet: 0, Callee: "go", Produced: 1, Fail: "gopanic"},
		{API: "Call", NArgs: 3, NRet: -1, Callee: "lua_tail_go", NPar: 1, Produced: 4},
	}
	for _, minstack := range []bool{false, true} {
		for depth := 0; depth <= 40; depth++ {
			for _, kinds := range []string{"go", "mixed"} {
				for _, spec := range sweep {
					n++
					if n%sn != si {
						continue
					}
					c := &CallCase{Reg: RegCfg{Size: 512, Max: 512 + 8192, Step: 32, MinStack: minstack}, Top: TopSpec{Sent: 1, Via: "PCall", NRet: -1},
						Below: 1, NArgs: 1, Ret: 1, Calls: []CallSpec{spec, sweep[2]}, Rounds: 1}
					for i := 0; i < depth; i++ {
						if kinds == "go" || i%2 == 1 {
							c.Chain = append(c.Chain, Frame{Kind: "go", NArgs: 1, Sent: 1, Via: "Call", NRet: -1, Ret: 1})
						} else {
							c.Chain = append(c.Chain, Frame{Kind: "lua", NArgs: 1, NPar: 1, Sent: 1, Via: "call", NRet: -1, Ret: 1})
						}
					}
					chkCallMatrix.Run(t, c)
				}
			}
		}
	}
	chkCallMatrix.SetExhaustive(true)
	chkCallMatrix.Note("depth_sweep", "6 calls (non-callable, failing with and without handler, succeeding) x 0..40 activations below (all Go / alternating Lua and Go) x fixed and auto-growing call-frame stack")
	chkCallMatrix.Note("space", "2 contexts x 4 APIs x 11 callable callee kinds x nargs 0..5 x 6 NRet values x produced 0..5 x {ok, raises} (+ Go handler when protected and raising)")
}
