#!/bin/bash
# evalall.sh lane-count spec...   spec = <prop>:<checks>; results in /verif/.build/mutres/C<prop>-<m>.txt
mkdir -p /verif/.build/mutres
lanes=$1; shift
i=0
for spec in "$@"; do
  p=${spec%%:*}; checks=${spec##*:}
  for m in m1 m2 m3; do
    d=/tmp/mut$p-work/$m
    [ -f $d/patch.diff ] || continue
    lane=$((i % lanes)); i=$((i+1))
    echo "$d $checks /verif/.build/mutres/C$p-$m.txt" >> /verif/.build/mutres/lane$lane.todo
  done
done
for l in $(seq 0 $((lanes-1))); do
  ( while read d checks out; do EVALMUT_JOBS=6 /verif/evalmut.sh $d $checks > $out 2>&1; done < /verif/.build/mutres/lane$l.todo; echo LANE-DONE >> /verif/.build/mutres/lane$l.todo.done ) &
done
wait
