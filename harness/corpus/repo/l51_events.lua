print('testing metatables')

X = 20; B = 30

setfenv(1, setmetatable({}, {__index=_G}))

collectgarbage()

X = X+10
assert(X == 30 and _G.X == 20)
B = false
assert(B == false)
B = nil
assert(B == 30)

assert(getmetatable{} == nil)
assert(getmetatable(4) == nil)
assert(getmetatable(nil) == nil)
a={}; setmetatable(a, {__metatable = "xuxu",
                    __tostring=function(x) return x.name end})
assert(getmetatable(a) == "xuxu")
assert(tostring(a) == nil)
-- cannot change a protected metatable
assert(pcall(setmetatable, a, {}) == false)
a.name = "gororoba"
assert(tostring(a) == "gororoba")

local a, t = {10,20,30; x="10", y="20"}, {}
assert(setmetatable(a,t) == a)
assert(getmetatable(a) == t)
assert(setmetatable(a,nil) == a)
assert(getmetatable(a) == nil)
assert(setmetatable(a,t) == a)


function f (t, i, e)
  assert(not e)
  local p = rawget(t, "parent")
  return (p and p[i]+3), "dummy return"
end

t.__index = f

a.parent = {z=25, x=12, [4] = 24}
assert(a[1] == 10 and a.z == 28 and a[4] == 27 and a.x == "10")

collectgarbage()

a = setmetatable({}, t)
function f(t, i, v) rawset(t, i, v-3) end
t.__newindex = f
a[1] = 30; a.x = "101"; a[5] = 200
assert(a[1] == 27 and a.x == 98 and a[5] == 197)


local c = {}
a = setmetatable({}, t)
t.__newindex = c
a[1] = 10; a[2] = 20; a[3] = 90
assert(c[1] == 10 and c[2] == 20 and c[3] == 90)


do
  local a;
  a = setmetatable({}, {__index = setmetatable({},
                     {__index = setmetatable({},
                     {__index = function (_,n) return a[n-3]+4, "lixo" end})})})
  a[0] = 20
  for i=0,10 do
    assert(a[i*3] == 20 + i*4)
  end
end


do  -- newindex
  local foi
  local a = {}
  for i=1,10 do a[i] = 0; a['a'..i] = 0; end
  setmetatable(a, {__newindex = function (t,k,v) foi=true; rawset(t,k,v) end})
  foi = false; a[1]=0; assert(not foi)
  foi = false; a['a1']=0; assert(not foi)
  foi = false; a['a11']=0; assert(foi)
  foi = false; a[11]=0; assert(foi)
  foi = false; a[1]=nil; assert(not foi)
  foi = false; a[1]=nil; assert(foi)
end


function f (t, ...) return t, {...} end
t.__call = f

do
  local x,y = a(unpack{'a', 1})
  assert(x==a and y[1]=='a' and y[2]==1 and y[3]==nil)
  x,y = a()
  assert(x==a and y[1]==nil)
end


local b = setmetatable({}, t)
setmetatable(b,t)

function f(op)
  return function (...) cap = {[0] = op, ...} ; return (...) end
end
t.__add = f("add")
t.__sub = f("sub")
t.__mul = f("mul")
t.__div = f("div")
t.__mod = f("mod")
t.__unm = f("unm")
t.__pow = f("pow")

assert(b+5 == b)
assert(cap[0] == "add" and cap[1] == b and cap[2] == 5 and cap[3]==nil)
assert(b+'5' == b)
assert(cap[0] == "add" and cap[1] == b and cap[2] == '5' and cap[3]==nil)
assert(5+b == 5)
assert(cap[0] == "add" and cap[1] == 5 and cap[2] == b and cap[3]==nil)
assert('5'+b == '5')
assert(cap[0] == "add" and cap[1] == '5' and cap[2] == b and cap[3]==nil)
b=b-3; assert(getmetatable(b) == t)
assert(5-a == 5)
assert(cap[0] == "sub" and cap[1] == 5 and cap[2] == a and cap[3]==nil)
assert('5'-a == '5')
assert(cap[0] == "sub" and cap[1] == '5' and cap[2] == a and cap[3]==nil)
assert(a*a == a)
assert(cap[0] == "mul" and cap[1] == a and cap[2] == a and cap[3]==nil)
assert(a/0 == a)
assert(cap[0] == "div" and cap[1] == a and cap[2] == 0 and cap[3]==nil)
assert(a%2 == a)
assert(cap[0] == "mod" and cap[1] == a and cap[2] == 2 and cap[3]==nil)
assert(-a == a)
assert(cap[0] == "unm" and cap[1] == a)
assert(a^4 == a)
assert(cap[0] == "pow" and cap[1] == a and cap[2] == 4 and cap[3]==nil)
assert(a^'4' == a)
assert(cap[0] == "pow" and cap[1] == a and cap[2] == '4' and cap[3]==nil)
assert(4^a == 4)
assert(cap[0] == "pow" and cap[1] == 4 and cap[2] == a and cap[3]==nil)
assert('4'^a == '4')
assert(cap[0] == "pow" and cap[1] == '4' and cap[2] == a and cap[3]==nil)


t = {}
t.__lt = function (a,b,c)
  collectgarbage()
  assert(c == nil)
  if type(a) == 'table' then a = a.x end
  if type(b) == 'table' then b = b.x end
 return a<b, "dummy"
end

function Op(x) return setmetatable({x=x}, t) end

local function test ()
  assert(not(Op(1)<Op(1)) and (Op(1)<Op(2)) and not(Op(2)<Op(1)))
  assert(not(Op('a')<Op('a')) and (Op('a')<Op('b')) and not(Op('b')<Op('a')))
  assert((Op(1)<=Op(1)) and (Op(1)<=Op(2)) and not(Op(2)<=Op(1)))
  assert((Op('a')<=Op('a')) and (Op('a')<=Op('b')) and not(Op('b')<=Op('a')))
  assert(not(Op(1)>Op(1)) and not(Op(1)>Op(2)) and (Op(2)>Op(1)))
  assert(not(Op('a')>Op('a')) and not(Op('a')>Op('b')) and (Op('b')>Op('a')))
  assert((Op(1)>=Op(1)) and not(Op(1)>=Op(2)) and (Op(2)>=Op(1)))
  assert((Op('a')>=Op('a')) and not(Op('a')>=Op('b')) and (Op('b')>=Op('a')))
end

test()

t.__le = function (a,b,c)
  assert(c == nil)
  if type(a) == 'table' then a = a.x end
  if type(b) == 'table' then b = b.x end
 return a<=b, "dummy"
end

test()  -- retest comparisons, now using both `lt' and `le'


-- test `partial order'

local function Set(x)
  local y = {}
  for _,k in pairs(x) do y[k] = 1 end
  return setmetatable(y, t)
end

t.__lt = function (a,b)
  for k in pairs(a) do
    if not b[k] then return false end
    b[k] = nil
  end
  return next(b) ~= nil
end

t.__le = nil

assert(Set{1,2,3} < Set{1,2,3,4})
assert(not(Set{1,2,3,4} < Set{1,2,3,4}))
assert((Set{1,2,3,4} <= Set{1,2,3,4}))
assert((Set{1,2,3,4} >= Set{1,2,3,4}))
assert((Set{1,3} <= Set{3,5}))   -- wrong!! model needs a `le' method ;-)

t.__le = function (a,b)
  for k in pairs(a) do
    if not b[k] then return false end
  end
  return true
end

assert(not (Set{1,3} <= Set{3,5}))   -- now its OK!
assert(not(Set{1,3} <= Set{3,5}))
assert(not(Set{1,3} >= Set{3,5}))

t.__eq = function (a,b)
  for k in pairs(a) do
    if not b[k] then return false end
    b[k] = nil
  end
  return next(b) == nil
end

local s = Set{1,3,5}
assert(s == Set{3,5,1})
assert(not rawequal(s, Set{3,5,1}))
assert(rawequal(s, s))
assert(Set{1,3,5,1} == Set{3,5,1})
assert(Set{1,3,5} ~= Set{3,5,1,6})
t[Set{1,3,5}] = 1
assert(t[Set{1,3,5}] == nil)   -- `__eq' is not valid for table accesses


t.__concat = function (a,b,c)
  assert(c == nil)
  if type(a) == 'table' then a = a.val end
  if type(b) == 'table' then b = b.val end
  if A then return a..b
  else
    return setmetatable({val=a..b}, t)
  end
end

c = {val="c"}; setmetatable(c, t)
d = {val="d"}; setmetatable(d, t)

A = true
assert(c..d == 'cd')
assert(0 .."a".."b"..c..d.."e".."f"..(5+3).."g" == "0abcdef8g")

A = false
x = c..d
assert(getmetatable(x) == t and x.val == 'cd')
x = 0 .."a".."b"..c..d.."e".."f".."g"
assert(x.val == "0abcdefg")


-- test comparison compatibilities
local t1, t2, c, d
t1 = {};  c = {}; setmetatable(c, t1)
d = {}
t1.__eq = function () return true end
t1.__lt = function () return true end
assert(c ~= d and not pcall(function () return c < d end))
setmetatable(d, t1)
assert(c == d and c < d and not(d <= c))
t2 = {}
t2.__eq = t1.__eq
t2.__lt = t1.__lt
setmetatable(d, t2)
assert(c == d and c < d and not(d <= c))



-- test for several levels of calls
local i
local tt = {
  __call = function (t, ...)
    i = i+1
    if t.f then return t.f(...)
    else return {...}
    end
  end
}

local a = setmetatable({}, tt)
local b = setmetatable({f=a}, tt)
local c = setmetatable({f=b}, tt)

i = 0
x = c(3,4,5)
assert(i == 3 and x[1] == 3 and x[3] == 5)


assert(_G.X == 20)
assert(_G == getfenv(0))

print'+'

local _g = _G
setfenv(1, setmetatable({}, {__index=function (_,k) return _g[k] end}))

--[[
-- testing proxies
assert(getmetatable(newproxy()) == nil)
assert(getmetatable(newproxy(false)) == nil)

local u = newproxy(true)

getmetatable(u).__newindex = function (u,k,v)
  getmetatable(u)[k] = v
end

getmetatable(u).__index = function (u,k)
  return getmetatable(u)[k]
end

for i=1,10 do u[i] = i end
for i=1,10 do assert(u[i] == i) end

local k = newproxy(u)
assert(getmetatable(k) == getmetatable(u))


a = {}
rawset(a, "x", 1, 2, 3)
assert(a.x == 1 and rawget(a, "x", 3) == 1)

print '+'
--]]

-- testing metatables for basic types
mt = {}
debug.setmetatable(10, mt)
assert(getmetatable(-2) == mt)
mt.__index = function (a,b) return a+b end
assert((10)[3] == 13)
assert((10)["3"] == 13)
debug.setmetatable(23, nil)
assert(getmetatable(-2) == nil)

debug.setmetatable(true, mt)
assert(getmetatable(false) == mt)
mt.__index = function (a,b) return a or b end
assert((true)[false] == true)
assert((false)[false] == false)
debug.setmetatable(false, nil)
assert(getmetatable(true) == nil)

debug.setmetatable(nil, mt)
assert(getmetatable(nil) == mt)
mt.__add = function (a,b) return (a or 0) + (b or 0) end
assert(10 + nil == 10)
assert(nil + 23 == 23)
assert(nil + nil == 0)
debug.setmetatable(nil, nil)
assert(getmetatable(nil) == nil)

debug.setmetatable(nil, {})


print 'OK'

return 12
