#!/bin/bash
# evalbatch.sh "<prop>:<checks>" ...  -> appends to /verif/.build/mut-results.log
for spec in "$@"; do
  p=${spec%%:*}; checks=${spec##*:}
  for m in m1 m2 m3; do
    d=/tmp/mut$p-work/$m
    [ -f $d/patch.diff ] || continue
    echo "=== C$p $m checks=$checks" >> /verif/.build/mut-results.log
    EVALMUT_JOBS=8 /verif/evalmut.sh $d $checks >> /verif/.build/mut-results.log 2>&1
  done
done
echo "BATCH DONE $*" >> /verif/.build/mut-results.log
